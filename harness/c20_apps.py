#!/usr/bin/env python3
"""C20 -- Lonestar applications compute the correct answer for every input.

Technique: bounded-exhaustive enumeration of INPUTS x CONFIGURATIONS on the
REAL application binaries (built from /repo's working tree with CMake+Ninja,
vlib/appbuild.py).  Never random sampling: every input set below is a fixed,
enumerated list (all graphs below a size, a fixed stride through the next size,
a fixed structured family).  For every app, every algorithm variant it offers
on its command line, and -t in {1,2,4}, the app is run on every input of its
list and the answer it PRINTS is compared with an independent reference in
Python (/verif/ref/c20_refs.py: networkx / scipy / a few lines of union-find,
Kruskal, peeling, power iteration).

Thread schedules inside a whole application are NOT controlled (10^5-10^6
synchronisation steps per run, see DESIGN.md 9): the evidence says
schedules=uncontrolled; a failing multi-threaded run is repeated a few times and
the repeat count is reported.  Afforest variants of connected-components also
draw from std::random_device internally; that is not controlled either.

One JSON "case" per (app, variant):
  executions          = app processes run and checked
  states              = distinct inputs (graph + parameters) run
  transitions         = executions
  distinct_nontrivial = runs on graphs with >=2 nodes and >=1 edge and -t >= 2
  distinct_outcomes   = distinct answers printed by the app
  space               = planned runs; exhaustive = every planned run was done

Usage:  c20_apps.py --tier quick|thorough --out FILE --deadline SEC
        c20_apps.py --replay FILE [--repeat N]
        c20_apps.py --list [--tier T]         (planned runs per case)
        options: --app NAME[,NAME] (restrict), --case SUBSTR, --lanes N,
                 --keep (graph files)
        env C20_BIN_OVERRIDE="target=/path,..." runs other binaries (a
        candidate fix or a mutant built elsewhere) instead of the tree's
Exit 0: no violation; 1: violations (each with a replay file); 2: machinery.
"""
import os
import sys

VT = "/usr/local/bin/python3-vt"


def _need_vt():
    try:
        import networkx  # noqa: F401
        import scipy  # noqa: F401
        import numpy  # noqa: F401
        return
    except ImportError:
        pass
    if os.environ.get("C20_REEXEC") == "1" or not os.path.exists(VT):
        sys.stderr.write("c20_apps: networkx/scipy not importable and no "
                         "python3-vt\n")
        sys.exit(2)
    os.environ["C20_REEXEC"] = "1"
    os.execv(VT, [VT] + sys.argv)


_need_vt()

import atexit  # noqa: E402
import itertools  # noqa: E402
import json  # noqa: E402
import re  # noqa: E402
import shutil  # noqa: E402
import signal  # noqa: E402
import subprocess  # noqa: E402
import threading  # noqa: E402
import time  # noqa: E402

HERE = os.path.dirname(os.path.abspath(__file__))
VERIF = os.path.dirname(HERE)
sys.path.insert(0, VERIF)
sys.path.insert(0, os.path.join(VERIF, "ref"))

from vlib import appbuild  # noqa: E402
import c20_graphs as cg  # noqa: E402
import c20_refs as refs  # noqa: E402

THREADS = (1, 2, 4)
TMPROOT = os.path.join(VERIF, "build", "tmp", "c20")
REPLAYS = os.path.join(VERIF, "replays")
RUN_TIMEOUT = {"quick": 15, "thorough": 60}  # seconds per app process; no
#                         exit within it is the verdict "hang" (normal runs
#                         take 0.02-3 s even on an overloaded machine)
HANG_LIMIT = 2          # after this many hangs the rest of the case is skipped
#                         (every hang blocks up to 4 CPUs for a full timeout)
LIVE = set()            # running app processes (killed if we are killed)
INF = refs.INF
APP_INF = 2147483646      # BFS_SSSP::DIST_INFINITY = UINT_MAX/2 - 1
ENV = dict(os.environ, GALOIS_DO_NOT_BIND_THREADS="1")


# ==========================================================================
# inputs
# ==========================================================================
class Input(object):
    __slots__ = ("g", "p", "name", "idx", "only")

    def __init__(self, g, **p):
        self.g = g
        self.only = p.pop("_only", None)   # run by these variants only
        self.p = p
        self.name = g.name + "".join("@%s=%s" % kv for kv in sorted(p.items()))
        self.idx = -1

    def to_json(self):
        return dict(graph=self.g.to_json(), params=self.p)

    @staticmethod
    def from_json(d):
        return Input(cg.G.from_json(d["graph"]), **d["params"])


def stride(lst, k):
    """fixed sub-enumeration: every k-th element (k prime, so no bit of the
    edge mask is constant) plus the last one (the complete graph)."""
    lst = list(lst)
    if k <= 1:
        return lst
    out = [x for i, x in enumerate(lst) if i % k == 0]
    if lst and (len(lst) - 1) % k != 0:
        out.append(lst[-1])
    return out


def D(n, k=1, loops=False):
    return stride(cg.digraphs(n, loops), k)


def U(n, k=1, loops=False):
    return stride(cg.ugraphs(n, loops), k)


_S = {}


def S(names=None, directed=True):
    key = "d" if directed else "u"
    if key not in _S:
        _S[key] = (cg.structured_directed() if directed
                   else cg.structured_undirected())
    if names is None:
        return list(_S[key])
    by = {g.name: g for g in _S[key]}
    return [by[n] for n in names]


def bip_struct():
    """structured bipartite inputs, A = 0..a-1 first, edges A -> B only"""
    out = []
    # complete K4,5
    out.append(cg.G("bK4,5", 9, [(i, 4 + j, 1) for i in range(4)
                                 for j in range(5)], "struct"))
    # ladder: a_i - b_i, a_i - b_{i+1}  (perfect matching, long augmenting
    # paths for a greedy start)
    n = 16
    out.append(cg.G("bladder16", 2 * n,
                    [(i, n + i, 1) for i in range(n)] +
                    [(i, n + i + 1, 1) for i in range(n - 1)], "struct"))
    # all of A wants b_0 (+ a_i - b_i for even i): deficient
    n = 12
    out.append(cg.G("bcrowd12", 2 * n,
                    [(i, n, 1) for i in range(n)] +
                    [(i, n + i, 1) for i in range(2, n, 2)], "struct"))
    # two components + isolated nodes on both sides
    out.append(cg.G("b2comp", 12, [(0, 6, 1), (0, 7, 1), (1, 6, 1),
                                   (2, 8, 1), (3, 8, 1), (3, 9, 1)],
                    "struct"))
    # Hall violator: 5 A-nodes share 2 B-nodes, 3 more A-nodes have own B
    e = [(i, 8 + (i % 2), 1) for i in range(5)]
    e += [(5 + i, 10 + i, 1) for i in range(3)]
    out.append(cg.G("bhall", 13, e, "struct"))
    # 32 x 32 heavy-tail
    e = set()
    for (a, b) in cg.heavy_tail_pairs(64, 5):
        e.add((a % 32, 32 + (b % 32), 1))
    out.append(cg.G("bheavy32", 64, sorted(e), "struct"))
    return out


def bip_enum(shapes, k=1):
    out = []
    for (a, b) in shapes:
        for g in stride(cg.bigraphs(a, b), k):
            # file holds A -> B only (documented: "nodes in set A have edges
            # while nodes in set B don't")
            out.append(cg.G(g.name, g.n, [(u, v, 1) for (u, v, _w) in g.edges
                                          if u < a], "enum"))
    return out


# ==========================================================================
# app specifications
# ==========================================================================
class Variant(object):
    def __init__(self, name, args, pred=None, **kw):
        self.name = name
        self.args = list(args)
        self.pred = pred
        self.kw = kw


def rx_int(pat, out):
    m = re.search(pat, out)
    return int(m.group(1)) if m else None


class App(object):
    name = None
    target = None
    edge_size = 4
    domain = ""
    oracle = ""

    def variants(self):
        raise NotImplementedError

    def inputs(self, tier):
        raise NotImplementedError

    def file_graph(self, inp):
        return inp.g

    def argv(self, path, inp, var, t, j):
        raise NotImplementedError

    def parse(self, out):
        raise NotImplementedError

    def reference(self, inp, var):
        raise NotImplementedError

    def refkey(self, var):
        return ""

    def check(self, ans, ref, inp, var, t, j):
        raise NotImplementedError

    def outcome(self, ans):
        return json.dumps(ans, sort_keys=True)

    def prepare(self, path, uniq):
        """per-run private files; returns (path to pass, [files to remove])"""
        return path, []


def report_node(n, j, family):
    """node whose distance the run reports: rotates with the thread-count
    index j so that over t=1,2,4 every non-source node of an n<=4 graph is
    reported once (n=4: 1,2,3; n=3: 1,2,0; n=2: 1,0,1)."""
    if family == "enum" or n <= 4:
        return (j + 1) % n
    return (n - 1, n // 2, 1)[j]


class DistApp(App):
    """bfs / sssp: one distance + (#visited, max, sum) per run"""
    weighted = False

    def argv(self, path, inp, var, t, j):
        r = report_node(inp.g.n, j, inp.g.family)
        return [path] + var.args + ["-startNode=%d" % inp.p["src"],
                                    "-reportNode=%d" % r, "-t=%d" % t]

    def parse(self, out):
        m = re.search(r"Node (\d+) has distance (\d+)", out)
        vis = rx_int(r"# visited nodes is (\d+)", out)
        mx = rx_int(r"Max distance is (\d+)", out)
        sm = rx_int(r"Sum of visited distances is (\d+)", out)
        if not m or vis is None or mx is None or sm is None:
            return None
        d = int(m.group(2))
        return dict(node=int(m.group(1)), dist=("inf" if d >= APP_INF else d),
                    visited=vis, max=mx, sum=sm)

    def reference(self, inp, var):
        f = refs.sssp_dist if self.weighted else refs.bfs_levels
        d = f(inp.g, inp.p["src"])
        return dict(dist=d, summ=refs.dist_summary(d))

    def check(self, ans, ref, inp, var, t, j):
        r = report_node(inp.g.n, j, inp.g.family)
        if ans["node"] != r:
            return ("wrong-report-node", "asked node %d got %d" %
                    (r, ans["node"]))
        exp = ref["dist"][r]
        exp = "inf" if exp == INF else exp
        if ans["dist"] != exp:
            return ("wrong-distance", "node %d: app %s, true %s" %
                    (r, ans["dist"], exp))
        s = ref["summ"]
        if ans["visited"] != s["visited"]:
            return ("wrong-visited-count", "app %d, true %d" %
                    (ans["visited"], s["visited"]))
        if ans["max"] != s["max"] or ans["sum"] != s["sum"]:
            return ("wrong-distance-summary", "app max=%d sum=%d, true max=%d "
                    "sum=%d (all true distances: %s)" %
                    (ans["max"], ans["sum"], s["max"], s["sum"], ref["dist"]))
        return None

    def outcome(self, ans):
        return "%s/%s/%s/%s" % (ans["dist"], ans["visited"], ans["max"],
                                ans["sum"])

    def _inputs(self, tier, k3, k4, kl3):
        gs = []
        if tier == "quick":
            gs += D(1) + D(2) + D(3, k3) + stride(D(1, 1, True) +
                                                  D(2, 1, True), 5)
            gs += S(["dpath64", "grid4x8", "dheavytail64", "loops6",
                     "clique5+path6+2iso", "star601"])
        else:
            gs += D(1) + D(2) + D(3) + D(4, k4)
            gs += D(1, 1, True) + D(2, 1, True) + D(3, kl3, True)
            st = S()
            gs += st
            gs += [cg.with_parallel(g) for g in S(["dag10", "shortcut21",
                                                   "grid3x3"])]
        out = [Input(g, src=0) for g in gs]
        # the source with the LARGEST id as well (processing order follows
        # ids, so this is not the same run up to relabelling)
        more = D(3, 11) if tier == "quick" else D(2) + D(3) + D(4, 61)
        out += [Input(g, src=g.n - 1) for g in more]
        return out


class Bfs(DistApp):
    name = "bfs"
    target = "bfs-cpu"
    domain = ("any directed graph with >=1 node (self loops, parallel edges "
              "allowed), startNode/reportNode < n; source fixed to node 0 "
              "(all labelled graphs are enumerated, so every rooted shape "
              "occurs)")
    oracle = ("reported node's level == BFS level (networkx), #visited, max "
              "and sum of levels equal; reported node rotates over t")

    def variants(self):
        return [Variant("%s/%s" % (a, e), ["-algo=" + a, "-exec=" + e])
                for e in ("PARALLEL", "SERIAL")
                for a in ("SyncTile", "Sync", "AsyncTile", "Async")]

    def inputs(self, tier):
        return self._inputs(tier, 7, 29, 13)


class Sssp(DistApp):
    name = "sssp"
    target = "sssp-cpu"
    weighted = True
    domain = ("any directed graph with uint32 edge weights, >=1 node; weights "
              "from {1,2,7} by a fixed rule of the endpoints (with_parallel "
              "adds heavier duplicates)")
    oracle = ("reported node's distance == Dijkstra (networkx), #visited, max "
              "and sum of distances equal; reported node rotates over t")

    def variants(self):
        v = [Variant(a, ["-algo=" + a]) for a in
             ("AutoAlgo", "deltaStep", "deltaTile", "deltaStepBarrier", "serDelta",
              "serDeltaTile", "dijkstra", "dijkstraTile", "topo", "topoTile")]
        # -delta is the log2 bucket width; default 13 puts every distance of
        # these inputs in one bucket, 1 makes buckets matter
        v += [Variant(a + "/delta=1", ["-algo=" + a, "-delta=1"]) for a in
              ("deltaStep", "deltaStepBarrier", "serDelta")]
        return v

    def inputs(self, tier):
        if tier == "quick":
            gs = D(1) + D(2) + D(3, 11)
            gs += S(["shortcut21", "grid4x8", "dheavytail64", "star601"])
            return [Input(g, src=0) for g in gs] + \
                [Input(g, src=2) for g in D(3, 23)]
        return self._inputs(tier, 7, 37, 31)


class CC(App):
    name = "cc"
    target = "connected-components-cpu"
    edge_size = 0
    domain = ("symmetric graph (-symmetricGraph), >=1 node; self loops and "
              "parallel edges allowed")
    oracle = ("number of components, number of components of size >=2 and "
              "size of the largest == union-find; per-node labels are not "
              "printed by the app")

    def variants(self):
        return [Variant(a, ["-algo=" + a]) for a in
                ("EdgetiledAsync", "Async", "EdgeAsync", "BlockedAsync",
                 "LabelProp", "Serial", "Sync", "Afforest", "EdgeAfforest",
                 "EdgetiledAfforest")]

    def inputs(self, tier):
        if tier == "quick":
            gs = U(1) + U(2) + U(3) + U(4, 11) + stride(U(2, 1, True), 3)
            gs += S(["clique5+path6+2iso", "grid4x8", "heavytail64",
                     "star601"], False)
        else:
            gs = U(1) + U(2) + U(3) + U(4) + U(5, 7)
            gs += stride(U(1, 1, True) + U(2, 1, True) + U(3, 1, True), 3)
            gs += S(None, False)
            gs += [cg.with_parallel(g) for g in S(["barbell6", "grid3x3"],
                                                  False)]
        return [Input(g) for g in gs]

    def argv(self, path, inp, var, t, j):
        return [path, "-symmetricGraph"] + var.args + ["-t=%d" % t]

    def parse(self, out):
        tot = rx_int(r"Total components: (\d+)", out)
        m = re.search(r"Number of non-trivial components: (\d+) "
                      r"\(largest size: (\d+)", out)
        if tot is None or not m:
            return None
        return dict(total=tot, nontrivial=int(m.group(1)),
                    largest=int(m.group(2)))

    def reference(self, inp, var):
        return refs.components(inp.g)

    def check(self, ans, ref, inp, var, t, j):
        if ans["total"] != ref["total"]:
            return ("wrong-component-count", "app %d, union-find %d" %
                    (ans["total"], ref["total"]))
        if ans["nontrivial"] != ref["nontrivial"] or \
                ans["largest"] != ref["largest"]:
            return ("wrong-component-sizes", "app nontrivial=%d largest=%d, "
                    "union-find nontrivial=%d largest=%d" %
                    (ans["nontrivial"], ans["largest"], ref["nontrivial"],
                     ref["largest"]))
        return None


class Mst(App):
    name = "mst"
    target = "minimum-spanningtree-cpu"
    domain = ("graph with int32 edge weights and >=1 edge (an edgeless graph "
              "is rejected by the app: 'Edge weights of graph out of range'); "
              "variant sym: symmetric input + -symmetricGraph; variant dir: "
              "any directed graph, the app symmetrises it")
    oracle = ("MST weight == Kruskal on the underlying undirected multigraph; "
              "number of trees == number of components; tree edges == n - "
              "trees")

    def variants(self):
        return [Variant("Parallel/sym", ["-algo=parallel", "-symmetricGraph"],
                        pred=lambda i: not i.p.get("dir") and
                        i.g.is_symmetric()),
                Variant("Parallel/dir", ["-algo=parallel"],
                        pred=lambda i: i.p.get("dir", False))]

    def inputs(self, tier):
        if tier == "quick":
            sym = U(2) + U(3) + U(4, 3) + S(
                ["barbell6", "grid4x8", "heavytail64", "clique5+path6+2iso",
                 "clique16", "star601"], False)
            dr = D(2) + D(3, 3) + S(["dag10", "dheavytail64", "dgrid6x6",
                                     "loops6"])
        else:
            sym = U(2) + U(3) + U(4) + U(5, 3) + S(None, False)
            sym += stride(U(2, 1, True) + U(3, 1, True), 5)
            sym += [cg.with_parallel(g) for g in S(["barbell6", "grid3x3"],
                                                   False)]
            dr = D(2) + D(3) + D(4, 11) + [g for g in S()
                                           if not g.is_symmetric()]
            dr += [cg.with_parallel(g) for g in S(["dag10"])]
        out = [Input(g) for g in sym if g.m >= 1]
        out += [Input(g, dir=True) for g in dr if g.m >= 1]
        return out

    def argv(self, path, inp, var, t, j):
        return [path] + var.args + ["-t=%d" % t]

    def parse(self, out):
        w = rx_int(r"MST weight: (\d+)", out)
        tr = rx_int(r"Num trees: (\d+)", out)
        te = rx_int(r"Tree edges: (\d+)", out)
        if w is None or tr is None or te is None:
            return None
        return dict(weight=w, trees=tr, edges=te)

    def reference(self, inp, var):
        return refs.kruskal(inp.g)

    def check(self, ans, ref, inp, var, t, j):
        if ans["trees"] != ref["trees"] or ans["edges"] != ref["edges"]:
            return ("wrong-forest-shape", "app trees=%d edges=%d, true "
                    "trees=%d edges=%d" % (ans["trees"], ans["edges"],
                                           ref["trees"], ref["edges"]))
        if ans["weight"] != ref["weight"]:
            return ("wrong-weight", "app %d, Kruskal %d" %
                    (ans["weight"], ref["weight"]))
        return None


def simple_sym(tier, big_names, k4, k5):
    if tier == "quick":
        gs = U(1) + U(2) + U(3) + U(4, k4) + S(big_names, False)
    else:
        gs = U(1) + U(2) + U(3) + U(4) + U(5, k5) + S(None, False)
    return gs


class Tri(App):
    name = "tri"
    target = "triangle-counting-cpu"
    edge_size = 0
    domain = ("simple symmetric graph (-symmetricGraph; no self loops, no "
              "duplicate edges), >=1 node, adjacency sorted as graph-convert "
              "writes it")
    oracle = "NumTriangles == brute force over node triples"

    def variants(self):
        return [Variant("%s%s" % (a, "/relabel" if r else ""),
                        ["-algo=" + a] + (["-relabel"] if r else []))
                for r in (False, True)
                for a in ("orderedCount", "nodeiterator", "edgeiterator")]

    def inputs(self, tier):
        return [Input(g) for g in simple_sym(
            tier, ["barbell6", "clique16", "heavytail64", "grid4x8",
                   "star601"], 5, 5)]

    def argv(self, path, inp, var, t, j):
        return [path, "-symmetricGraph"] + var.args + ["-t=%d" % t]

    def parse(self, out):
        v = rx_int(r"Num ?Triangles: (\d+)", out)
        return None if v is None else dict(triangles=v)

    def reference(self, inp, var):
        return refs.triangles(inp.g)

    def check(self, ans, ref, inp, var, t, j):
        if ans["triangles"] != ref:
            return ("wrong-count", "app %d, brute force %d" %
                    (ans["triangles"], ref))
        return None


class KCore(App):
    name = "kcore"
    target = "k-core-cpu"
    edge_size = 0
    domain = ("simple symmetric graph (-symmetricGraph), >=1 node, -kcore=k "
              "with k in 1..5 (k is part of the input)")
    oracle = ("'Number of nodes in the k-core' == nodes surviving repeated "
              "deletion of degree<k nodes (brute-force peeling)")

    def variants(self):
        return [Variant(a, ["-algo=" + a]) for a in ("Sync", "Async")]

    def inputs(self, tier):
        out = []
        if tier == "quick":
            for g in U(1) + U(2) + U(3):
                out += [Input(g, k=1), Input(g, k=2)]
            out += [Input(g, k=2) for g in U(4, 3)]
            out += [Input(g, k=3) for g in U(4, 5)]
            for g in S(["barbell6", "heavytail64", "grid4x8", "star601"],
                       False):
                out.append(Input(g, k=2 if g.name != "barbell6" else 5))
        else:
            for g in U(1) + U(2) + U(3) + U(4):
                out += [Input(g, k=k) for k in (1, 2, 3)]
            for g in U(5, 11):
                out += [Input(g, k=k) for k in (2, 3)]
            for g in S(None, False):
                out += [Input(g, k=k) for k in (2, 3, 5)]
        return out

    def argv(self, path, inp, var, t, j):
        return [path, "-symmetricGraph", "-kcore=%d" % inp.p["k"]] + \
            var.args + ["-t=%d" % t]

    def parse(self, out):
        m = re.search(r"Number of nodes in the (\d+)-core is (\d+)", out)
        return None if not m else dict(k=int(m.group(1)),
                                       alive=int(m.group(2)))

    def reference(self, inp, var):
        return refs.kcore_size(inp.g, inp.p["k"])

    def check(self, ans, ref, inp, var, t, j):
        if ans["k"] != inp.p["k"] or ans["alive"] != ref:
            return ("wrong-count", "app %d nodes in the %d-core, peeling %d" %
                    (ans["alive"], ans["k"], ref))
        return None

    def outcome(self, ans):
        return str(ans["alive"])


PR_SLACK_REL = 2e-5   # float32 accumulation + 6 significant digits printed
PR_SLACK_ABS = 2e-7


class PageRank(App):
    """Reference x* = fixed point of x = 0.85 P^T x + b (dangling nodes leak,
    as in the apps), power iteration in float64.  Acceptance per printed node:
      Topo (pull):  |x - x*| <= alpha*tol/(1-alpha)     [any in-place sweep
                    whose total change is <= tol has L1 distance <= that]
      push Async/Sync: 0 <= x* - x <= tol * x*/0.15     [what is not applied
                    is a residual <= tol per node; (I-M)^-1 tol*1 = tol*x*/b]
      pull Residual: 0 <= x* - x <= K * tol * x*/0.15 with K = 12: this
                    variant DROPS a sub-tolerance residual whenever a new one
                    arrives (documented in its source: 'not reflected'), so
                    only a multiple can be promised; the largest ratio over
                    the fixed input sets is 2.6 (cell max_residual_ratio) and
                    it cannot vary: the algorithm is bulk-synchronous without
                    races, so its result is a function of the input alone
    plus PR_SLACK for float32 / printing."""
    edge_size = 0
    base_topo = False

    def tol_variants(self, algos):
        out = []
        for a in algos:
            for tol in ("0.001", "1e-05"):
                out.append(Variant("%s/tol=%s" % (a, tol),
                                   ["-algo=" + a, "-tolerance=" + tol],
                                   algo=a, tol=float(tol)))
        return out

    def inputs(self, tier):
        if tier == "quick":
            gs = D(1) + D(2) + D(3, 5) + stride(D(1, 1, True) +
                                                D(2, 1, True), 3)
            gs += S(["dag10", "dheavytail64", "grid4x8", "star601"])
        else:
            gs = D(1) + D(2) + D(3) + D(4, 29)
            gs += D(1, 1, True) + D(2, 1, True) + D(3, 13, True)
            gs += S()
            gs += [cg.with_parallel(g) for g in S(["dag10"])]
        return [Input(g) for g in gs]

    def parse(self, out):
        m = re.search(r"Rank PageRank Id\n((?:\d+: \S+ \d+\n)*)", out)
        if not m:
            return None
        top = []
        for line in m.group(1).splitlines():
            a = line.split()
            top.append((int(a[2]), float(a[1])))
        ans = dict(top=top)
        for k, pat in (("max", r"Max rank is (\S+)"),
                       ("min", r"Min rank is (\S+)"),
                       ("sum", r"Sum is (\S+)")):
            mm = re.search(pat, out)
            if mm:
                ans[k] = float(mm.group(1))
        return ans

    def refkey(self, var):
        return "topo" if var.kw["algo"] == "Topo" else "res"

    def reference(self, inp, var):
        n = inp.g.n
        base = 0.15 / n if var.kw["algo"] == "Topo" else 0.15
        return dict(x=refs.pagerank(inp.g, base), base=base)

    def bounds(self, var, xs, base):
        """(lo, hi) allowed for app - x* at a node whose true value is xs"""
        tol = var.kw["tol"]
        slack = PR_SLACK_REL * abs(xs) + PR_SLACK_ABS
        a = var.kw["algo"]
        if a == "Topo":
            b = refs.ALPHA * tol / (1 - refs.ALPHA)
            return (-b - slack, b + slack)
        k = 12.0 if a == "Residual" else 1.0
        return (-(k * tol * xs / base) - slack, slack)

    def check(self, ans, ref, inp, var, t, j):
        x = ref["x"]
        n = inp.g.n
        top = ans["top"]
        if len(top) != min(n, 20):
            return ("wrong-output", "printed %d ranks for %d nodes" %
                    (len(top), n))
        if len(set(i for i, _ in top)) != len(top) or \
                any(i >= n for i, _ in top):
            return ("wrong-output", "bad node ids in %s" % top)
        worst = 0.0
        for (i, v) in top:
            lo, hi = self.bounds(var, x[i], ref["base"])
            d = v - x[i]
            if not (lo <= d <= hi):
                return ("rank-out-of-tolerance", "node %d: app %.7g, power "
                        "iteration %.9g, difference %.3g outside [%.3g, "
                        "%.3g]" % (i, v, x[i], d, lo, hi))
            if var.kw["algo"] != "Topo" and x[i] > 0:
                worst = max(worst, (x[i] - v) /
                            (var.kw["tol"] * x[i] / ref["base"]))
        ans["_ratio"] = worst
        vals = [v for _, v in top]
        if any(vals[k] < vals[k + 1] for k in range(len(vals) - 1)):
            return ("wrong-output", "ranks not sorted: %s" % top)
        if "max" in ans:
            mx, mn, sm = max(x), min(x), sum(x)
            lo, hi = self.bounds(var, mx, ref["base"])
            if not (lo <= ans["max"] - mx <= hi):
                return ("rank-out-of-tolerance", "max rank app %.7g true "
                        "%.9g" % (ans["max"], mx))
            lo, hi = self.bounds(var, mn, ref["base"])
            if not (lo <= ans["min"] - mn <= hi):
                return ("rank-out-of-tolerance", "min rank app %.7g true "
                        "%.9g" % (ans["min"], mn))
            lo = sum(self.bounds(var, v, ref["base"])[0] for v in x)
            hi = sum(self.bounds(var, v, ref["base"])[1] for v in x)
            if var.kw["algo"] == "Topo":  # L1 bound holds for the sum as such
                b = self.bounds(var, 0.0, ref["base"])
                lo, hi = b[0] - PR_SLACK_REL * sm, b[1] + PR_SLACK_REL * sm
            if not (lo <= ans["sum"] - sm <= hi):
                return ("rank-out-of-tolerance", "sum of ranks app %.7g true "
                        "%.9g (allowed %.3g..%.3g)" %
                        (ans["sum"], sm, lo, hi))
        return None

    def outcome(self, ans):
        return " ".join("%d:%.3g" % (i, v) for i, v in ans["top"][:6])


class PrPull(PageRank):
    name = "pr-pull"
    target = "pagerank-pull-cpu"
    domain = ("TRANSPOSE of any directed graph with >=1 node "
              "(-transposedGraph); self loops and parallel edges count as "
              "links; tolerance 1e-3 (default) and 1e-5")
    oracle = ("every printed rank (all nodes if n<=20, else top 20, + max, "
              "min, sum) within the tolerance-derived bound of float64 power "
              "iteration; see class PageRank")

    def variants(self):
        return self.tol_variants(("Residual", "Topo"))

    def file_graph(self, inp):
        g = inp.g
        return cg.G(g.name + "^T", g.n, [(v, u, w) for (u, v, w) in g.edges],
                    g.family)

    def argv(self, path, inp, var, t, j):
        return [path, "-transposedGraph"] + var.args + ["-t=%d" % t]


class PrPush(PageRank):
    name = "pr-push"
    target = "pagerank-push-cpu"
    domain = ("any directed graph with >=1 node; tolerance 1e-3 (default) "
              "and 1e-5")
    oracle = PrPull.oracle

    def variants(self):
        return self.tol_variants(("Async", "Sync"))

    def argv(self, path, inp, var, t, j):
        return [path] + var.args + ["-t=%d" % t]


class Mis(App):
    name = "mis"
    target = "maximal-independentset-cpu"
    edge_size = 0
    domain = "simple symmetric graph (-symmetricGraph), >=1 node"
    oracle = ("the app prints only the CARDINALITY of its set: it must be the "
              "size of SOME maximal independent set of the input -- exact set "
              "of feasible sizes by enumerating all maximal independent sets "
              "(components <=24 nodes), else the interval [independent "
              "domination number, independence number] by MILP; membership "
              "itself is not observable from outside")

    def variants(self):
        return [Variant(a, ["-algo=" + a]) for a in
                ("prio", "edgetiledprio", "serial", "pull", "nondet",
                 "detBase")]

    def inputs(self, tier):
        return [Input(g) for g in simple_sym(
            tier, ["barbell6", "K4,5", "heavytail64", "grid4x8", "star601"],
            5, 5)]

    def argv(self, path, inp, var, t, j):
        return [path, "-symmetricGraph"] + var.args + ["-t=%d" % t]

    def parse(self, out):
        v = rx_int(r"Cardinality of maximal independent set: (\d+)", out)
        return None if v is None else dict(card=v)

    def reference(self, inp, var):
        s, exact = refs.mis_sizes(inp.g)
        return dict(sizes=sorted(s), exact=exact)

    def check(self, ans, ref, inp, var, t, j):
        if ans["card"] not in ref["sizes"]:
            s = ref["sizes"]
            txt = str(s) if len(s) <= 12 else "%d..%d" % (s[0], s[-1])
            return ("impossible-cardinality", "app's set has %d nodes; "
                    "maximal independent sets of this graph have sizes %s%s" %
                    (ans["card"], txt, "" if ref["exact"] else " (bounds)"))
        return None


class Matching(App):
    name = "matching"
    target = "maximum-cardinality-matching-cpu"
    edge_size = 4
    domain = ("bipartite graph from file as the source documents it: the "
              "first numA nodes are side A and carry all edges (A -> B), B "
              "nodes have none; >=1 edge; int32 edge data 1 (the Preflow-push "
              "variant reads it as capacity); -symmetricGraph is demanded by "
              "the app")
    oracle = "'Matching of cardinality' == Hopcroft-Karp (networkx)"

    def variants(self):
        v = [Variant("%s/%s" % (a, e), ["-" + a, "-" + e])
             for e in ("parallel", "serial")
             for a in ("abmpAlgo", "pfpAlgo", "ffAlgo")]
        # the app's own verifier is wrong for pfpAlgo (it aborts on correct
        # matchings, key matching:pfpAlgo/*:self-verification-failed); with
        # -noverify the answer itself is still compared with Hopcroft-Karp
        v += [Variant("pfpAlgo/%s/noverify" % e, ["-pfpAlgo", "-" + e,
                                                  "-noverify"])
              for e in ("parallel", "serial")]
        return v

    def inputs(self, tier):
        if tier == "quick":
            gs = bip_enum([(1, 1), (1, 2), (2, 1), (2, 2)])
            gs += bip_enum([(3, 3)], 79)
            gs += [g for g in bip_struct()
                   if g.name in ("bladder16", "bcrowd12", "bheavy32")]
        else:
            gs = bip_enum([(1, 1), (1, 2), (2, 1), (2, 2), (1, 3), (3, 1),
                           (2, 3), (3, 2)])
            gs += bip_enum([(3, 3)], 5)
            gs += bip_struct()
        return [Input(g) for g in gs if g.m >= 1]

    def argv(self, path, inp, var, t, j):
        return [path, "-symmetricGraph", "-inputType=fromFile"] + var.args + \
            ["-t=%d" % t]

    def parse(self, out):
        v = rx_int(r"Matching of cardinality: (\d+)", out)
        return None if v is None else dict(size=v)

    def reference(self, inp, var):
        return refs.matching_size(inp.g)

    def check(self, ans, ref, inp, var, t, j):
        if ans["size"] != ref:
            return ("wrong-size", "app %d, Hopcroft-Karp %d" %
                    (ans["size"], ref))
        return None


class Pfp(App):
    name = "preflowpush"
    target = "preflowpush-cpu"
    edge_size = 4
    domain = ("directed graph with int32 capacities, no parallel edges (the "
              "app asserts 'Adjacency list cannot have duplicates'), self "
              "loops allowed (dropped by the app), >=2 nodes, source=0 != "
              "sink=n-1 (structured graphs: also a second pair); "
              "-useSymmetricDirectly only on simple symmetric inputs")
    oracle = "'Flow is' == maximum flow value (networkx)"

    def variants(self):
        sym = lambda i: i.g.is_symmetric() and not i.g.has_loop()  # noqa: E731
        return [Variant("nondet", []),
                Variant("detBase", ["-detBase"]),
                Variant("detDisjoint", ["-detDisjoint"]),
                Variant("nondet/HLOrder", ["-useHLOrder"]),
                Variant("nondet/unitCapacity", ["-useUnitCapacity"],
                        unit=True),
                Variant("nondet/relabel=1", ["-relabel=1"]),
                Variant("nondet/symmetricDirectly", ["-useSymmetricDirectly"],
                        pred=sym, unit=True)]

    def inputs(self, tier):
        """(s,t) = (0,n-1) AND (n-1,0): the app processes the source's
        neighbours in id order, so 'sink has the smallest id' is a different
        run from 'sink has the largest id' although the graphs are the same
        up to relabelling."""
        out = []
        dflt = ("nondet",)
        if tier == "quick":
            gs = D(2) + D(3, 5) + U(3)
            more = D(4, 61)           # default variant only, sink = node 0
            big = S(["dag10", "layers4x8", "dgrid6x6", "grid3x3"])
        else:
            gs = D(2) + D(3) + D(4, 29) + U(3) + U(4) + \
                stride(D(2, 1, True) + D(3, 1, True), 31)
            more = D(4, 7)
            big = [g for g in S() if g.n <= 64 and g.m >= 1]
        # first, so that a deadline cuts this (longest) case at its tail
        for g in more:
            out.append(Input(g, s=g.n - 1, t=0, _only=dflt))
        for g in gs:
            out.append(Input(g, s=0, t=g.n - 1))
            if tier != "quick" or g.name[0] == "d":
                out.append(Input(g, s=g.n - 1, t=0))
        for g in big:
            out.append(Input(g, s=0, t=g.n - 1))
            if g.n >= 4:
                out.append(Input(g, s=g.n // 2, t=1))
        return out

    def prepare(self, path, uniq):
        # the app writes "<input>.pfp" next to its input when it is missing:
        # give every process its own name so concurrent runs never share one
        p = os.path.join(os.path.dirname(path), "r%s.gr" % uniq)
        os.link(path, p)
        return p, [p, p + ".pfp"]

    def argv(self, path, inp, var, t, j):
        return [path, "-sourceNode=%d" % inp.p["s"],
                "-sinkNode=%d" % inp.p["t"]] + var.args + ["-t=%d" % t]

    def parse(self, out):
        m = re.search(r"Flow is (-?\d+)", out)
        return None if not m else dict(flow=int(m.group(1)))

    def refkey(self, var):
        return "unit" if var.kw.get("unit") else "cap"

    def reference(self, inp, var):
        return refs.maxflow(inp.g, inp.p["s"], inp.p["t"],
                            unit=bool(var.kw.get("unit")))

    def check(self, ans, ref, inp, var, t, j):
        if ans["flow"] != ref:
            return ("wrong-flow", "app %d, max-flow %d" % (ans["flow"], ref))
        return None


APPS = [Bfs(), Sssp(), CC(), Mst(), Tri(), KCore(), PrPull(), PrPush(),
        Mis(), Matching(), Pfp()]


# ==========================================================================
# plan / jobs
# ==========================================================================
class Case(object):
    def __init__(self, app, var):
        self.app = app
        self.var = var
        self.name = "%s/%s" % (app.name, var.name)
        self.jobs = []
        self.done = 0
        self.nontrivial = 0
        self.outcomes = set()
        self.inputs_run = set()
        self.fail = []        # (job, symptom, msg, out)
        self.samples = []
        self.wall = 0.0
        self.ratio = 0.0
        self.hangs = 0
        self.skipped = 0      # jobs not run because the case kept hanging
        self.lock = threading.Lock()


class Job(object):
    __slots__ = ("case", "inp", "t", "j", "path", "seq")

    def __init__(self, case, inp, t, j):
        self.case = case
        self.inp = inp
        self.t = t
        self.j = j
        self.path = None
        self.seq = 0


def make_plan(tier, bins, only_app=None, only_case=None):
    cases = []
    skipped = []
    for app in APPS:
        if only_app and app.name not in only_app:
            continue
        if app.target not in bins:
            skipped.append(app)
            continue
        inputs = app.inputs(tier)
        seen = set()
        uniq = []
        for i in inputs:
            if i.name in seen:
                continue
            seen.add(i.name)
            i.idx = len(uniq)
            uniq.append(i)
        app._inputs_cache = uniq
        for var in app.variants():
            c = Case(app, var)
            if only_case and only_case not in c.name:
                continue
            for inp in uniq:
                if var.pred and not var.pred(inp):
                    continue
                if inp.only is not None and var.name not in inp.only:
                    continue
                for j, t in enumerate(THREADS):
                    c.jobs.append(Job(c, inp, t, j))
            cases.append(c)
    return cases, skipped


# ==========================================================================
# execution
# ==========================================================================
class Runner(object):
    def __init__(self, bins, workdir, lanes, timeout=60):
        self.timeout = timeout
        self.bins = bins
        self.workdir = workdir
        self.lanes = lanes
        self.seq = itertools.count()
        self.ref_cache = {}
        self.ref_lock = threading.Lock()
        self.machinery = []

    def graph_path(self, app, inp):
        d = os.path.join(self.workdir, app.name)
        return os.path.join(d, "g%d.gr" % inp.idx)

    def write_graphs(self, cases):
        done = set()
        for c in cases:
            d = os.path.join(self.workdir, c.app.name)
            os.makedirs(d, exist_ok=True)
            for job in c.jobs:
                p = self.graph_path(c.app, job.inp)
                job.path = p
                if p not in done:
                    done.add(p)
                    cg.write_gr(c.app.file_graph(job.inp), p, c.app.edge_size)
        return len(done)

    def reference(self, app, inp, var):
        key = (app.name, inp.name, app.refkey(var))
        with self.ref_lock:
            if key in self.ref_cache:
                return self.ref_cache[key]
        r = app.reference(inp, var)
        with self.ref_lock:
            self.ref_cache[key] = r
        return r

    def execute(self, app, var, inp, t, j, path, mask):
        """run one app process; returns (symptom or None, msg, ans, out, dt)"""
        uniq = "%d_%d" % (os.getpid(), next(self.seq))
        p, rm = app.prepare(path, uniq)
        cmd = [self.bins[app.target]] + app.argv(p, inp, var, t, j)
        if mask:
            cmd = ["taskset", "-c", mask] + cmd
        t0 = time.time()
        try:
            pr = subprocess.Popen(cmd, stdout=subprocess.PIPE,
                                  stderr=subprocess.STDOUT, env=ENV,
                                  cwd=self.workdir)
            LIVE.add(pr)
            try:
                o, _ = pr.communicate(timeout=self.timeout)
                rc, out = pr.returncode, o.decode(errors="replace")
            except subprocess.TimeoutExpired:
                pr.kill()
                o, _ = pr.communicate()
                rc, out = "timeout", (o or b"").decode(errors="replace")
            finally:
                LIVE.discard(pr)
        finally:
            for f in rm:
                try:
                    os.unlink(f)
                except OSError:
                    pass
        dt = time.time() - t0
        shown = " ".join([app.target] + app.argv(
            "<%s>" % inp.g.short(), inp, var, t, j)[0:])
        if rc == "timeout":
            return ("hang", "no exit within %ds: %s" % (self.timeout, shown),
                    None, out, dt)
        if rc != 0:
            tail = " | ".join(x for x in out.strip().splitlines()[-30:]
                              if not x.startswith(("STAT", "PARAM")))[-400:]
            if rc < 0:
                sig = -rc
                if sig == signal.SIGABRT and "erification failed" in out:
                    sym = "self-verification-failed"
                elif sig == signal.SIGABRT:
                    sym = "abort"
                else:
                    sym = "crash-sig%d" % sig
            else:
                sym = "exit-%d" % rc
            return (sym, "%s: %s" % (shown, tail), None, out, dt)
        m = re.search(r"PARAM, \(NULL\), Threads, SINGLE, (\d+)", out)
        if m and int(m.group(1)) != t:
            self.machinery.append("asked -t=%d, app ran %s threads (%s)" %
                                  (t, m.group(1), shown))
        ans = app.parse(out)
        if ans is None:
            return ("no-answer", "exit 0 without the result line: %s" % shown,
                    None, out, dt)
        ref = self.reference(app, inp, var)
        bad = app.check(ans, ref, inp, var, t, j)
        if bad:
            return (bad[0], "%s on %s -t=%d: %s" %
                    (var.name, inp.g.short(), t, bad[1]), ans, out, dt)
        return (None, "", ans, out, dt)

    def run_job(self, job, mask):
        c = job.case
        with c.lock:
            if c.hangs >= HANG_LIMIT:
                c.skipped += 1
                return
        sym, msg, ans, out, dt = self.execute(c.app, c.var, job.inp, job.t,
                                              job.j, job.path, mask)
        g = job.inp.g
        with c.lock:
            c.done += 1
            c.wall += dt
            c.inputs_run.add(job.inp.name)
            if g.n >= 2 and g.m >= 1 and job.t >= 2:
                c.nontrivial += 1
            if ans is not None:
                c.outcomes.add(c.app.outcome(ans))
                c.ratio = max(c.ratio, ans.get("_ratio", 0.0))
                if len(c.samples) < 3 and (job.t >= 2 and g.m >= 1):
                    c.samples.append("%s%s -t=%d -> %s" % (
                        g.short(), "".join(" %s=%s" % kv for kv in
                                           sorted(job.inp.p.items())), job.t,
                        c.app.outcome(ans)))
            if sym:
                if not any(f[1] == sym for f in c.fail):
                    print("! %s:%s:%s first seen: %s" %
                          (c.app.name, c.var.name, sym, msg[:300]), flush=True)
                c.fail.append((job, sym, msg, out))
                if sym == "hang":
                    c.hangs += 1


def pick_lanes(nlanes):
    try:
        cpus = sorted(os.sched_getaffinity(0))
    except AttributeError:
        cpus = list(range(os.cpu_count() or 4))
    lanes = []
    # last CPUs first: processes that bind threads start at CPU 0
    while len(cpus) >= 4 and len(lanes) < nlanes:
        lane, cpus = cpus[-4:], cpus[:-4]
        lanes.append(",".join(str(c) for c in lane))
    if not lanes:
        lanes = [None]
    return lanes


def run_all(runner, cases, deadline_at, progress=True):
    """three thread classes; each lane (4 CPUs) repeatedly takes a batch of
    one class and runs 4/t of its jobs concurrently -> <= 4 app threads per
    lane, <= 4*lanes in total."""
    queues = {}
    for t in THREADS:
        per_case = [[j for j in c.jobs if j.t == t] for c in cases]
        q = [j for tup in itertools.zip_longest(*per_case) for j in tup
             if j is not None]
        queues[t] = q
    pos = {t: 0 for t in THREADS}
    batch = {1: 32, 2: 12, 4: 4}
    lock = threading.Lock()
    state = dict(stop=False, done=0)
    total = sum(len(q) for q in queues.values())
    t_start = time.time()

    def take():
        with lock:
            if state["stop"] or time.time() >= deadline_at:
                state["stop"] = True
                return None, []
            # the class that is furthest behind: if the deadline cuts the
            # run, every thread count has covered the same share of its queue
            best, bf = None, 2.0
            for t in reversed(THREADS):
                if pos[t] < len(queues[t]):
                    f = pos[t] / float(len(queues[t]))
                    if f < bf:
                        best, bf = t, f
            if best is None:
                return None, []
            n = batch[best]
            jobs = queues[best][pos[best]:pos[best] + n]
            pos[best] += len(jobs)
            return best, jobs

    def lane_main(mask):
        while True:
            t, jobs = take()
            if not jobs:
                return
            it = iter(jobs)
            il = threading.Lock()

            def worker():
                while True:
                    with il:
                        job = next(it, None)
                    if job is None:
                        return
                    if time.time() >= deadline_at:
                        with lock:
                            state["stop"] = True
                        return
                    runner.run_job(job, mask)
                    with lock:
                        state["done"] += 1
            ws = [threading.Thread(target=worker) for _ in range(4 // t)]
            for w in ws:
                w.start()
            for w in ws:
                w.join()

    ths = [threading.Thread(target=lane_main, args=(m,))
           for m in runner.lanes]
    for th in ths:
        th.start()
    last = 0
    while any(th.is_alive() for th in ths):
        time.sleep(0.5)
        if progress and time.time() - last >= 15:
            last = time.time()
            nf = sum(len(c.fail) for c in cases)
            print("# %6.0fs  %d/%d runs  failures so far: %d" %
                  (time.time() - t_start, state["done"], total, nf),
                  flush=True)
    for th in ths:
        th.join()
    return state["stop"]


# ==========================================================================
# violations, replay files
# ==========================================================================
def san(s):
    return re.sub(r"[^A-Za-z0-9_.=-]+", "_", s)


def job_order(job):
    return (job.inp.g.n, job.inp.g.m, job.t, job.inp.idx)


def write_replay(key, app, var, inp, t, j, msg, out, extra):
    os.makedirs(REPLAYS, exist_ok=True)
    p = os.path.join(REPLAYS, "C20-%s.json" % san(key))
    doc = dict(property="C20", key=key, app=app.name, variant=var.name,
               threads=t, j=j, input=inp.to_json(), msg=msg,
               app_output_tail=out[-6000:], **extra)
    with open(p, "w") as f:
        json.dump(doc, f, indent=1)
    return p


def confirm_failures(runner, cases, repeats=5):
    """one violation per key: the smallest failing input; it is re-run
    `repeats` times to say whether the failure is schedule dependent."""
    viol = {}
    mask = runner.lanes[0]
    for c in cases:
        bykey = {}
        for (job, sym, msg, out) in c.fail:
            key = "%s:%s:%s" % (c.app.name, c.var.name, sym)
            cur = bykey.get(key)
            if cur is None or job_order(job) < job_order(cur[0]):
                bykey[key] = (job, sym, msg, out)
        counts = {}
        for (job, sym, _m, _o) in c.fail:
            counts[sym] = counts.get(sym, 0) + 1
        for key, (job, sym, msg, out) in sorted(bykey.items()):
            again = 0
            one = ""
            s1 = None
            if job.t > 1:
                # same input on one thread: a failure there is no schedule
                # effect at all
                s1 = runner.execute(c.app, c.var, job.inp, 1, job.j,
                                    job.path, mask)[0]
                one = "; with -t=1: %s" % (s1 or "correct")
            if sym == "hang":
                # a one-thread hang is conclusive and cheap; otherwise give
                # the original thread count one run with 3x the time
                reps = 1
                if s1 == "hang":
                    again = 1
                else:
                    keep = runner.timeout
                    runner.timeout = 3 * keep
                    try:
                        s2 = runner.execute(c.app, c.var, job.inp, job.t,
                                            job.j, job.path, mask)[0]
                    finally:
                        runner.timeout = keep
                    again = 1 if s2 == "hang" else 0
            else:
                reps = repeats
                for _ in range(reps):
                    s2 = runner.execute(c.app, c.var, job.inp, job.t, job.j,
                                        job.path, mask)[0]
                    if s2 == sym:
                        again += 1
            if again == reps:
                rep = "repeated %d/%d: deterministic for this input%s" % (
                    again, reps, one)
            else:
                rep = ("repeated %d/%d: SCHEDULE DEPENDENT (uncontrolled "
                       "schedules)%s" % (again, reps, one))
            # a time-out that does not repeat with 3x the time is machine
            # load, not a verdict
            confirmed = not (sym == "hang" and again == 0)
            full = "%s [%d failing runs in this case; %s]" % (
                msg, counts[sym], rep)
            path = ""
            if confirmed:
                path = write_replay(key, c.app, c.var, job.inp, job.t, job.j,
                                    full, out, dict(repeat=[again, reps]))
            viol.setdefault(c.name, []).append(dict(
                key=key, msg=full, confirmed=confirmed, replay=path))
            print("%s key=%s\n    %s\n    replay=%s" % (
                "FINDING" if confirmed else "UNCONFIRMED", key, full, path),
                flush=True)
    return viol


def emit(out, tier, cases, viol, wall, stopped, meta):
    doc = dict(property="C20", tier=tier, wall_s=round(wall, 2), cases=[],
               **meta)
    for c in cases:
        planned = len(c.jobs)
        cell = dict(
            name=c.name, kind="enum",
            exhaustive=(c.done == planned),
            executions=c.done, states=len(c.inputs_run), transitions=c.done,
            distinct_nontrivial=c.nontrivial,
            distinct_outcomes=len(c.outcomes), space=planned,
            deadline_hit=bool(stopped and c.done < planned),
            wall_s=round(c.wall, 2), threads=list(THREADS),
            schedules="uncontrolled",
            inputs=len(set(j.inp.name for j in c.jobs)),
            violations=viol.get(c.name, []),
            samples=[dict(case=s) for s in c.samples])
        if c.ratio:
            cell["max_residual_ratio"] = round(c.ratio, 3)
        if c.skipped:
            cell["skipped_after_hangs"] = c.skipped
        doc["cases"].append(cell)
    if out:
        with open(out + ".tmp", "w") as f:
            json.dump(doc, f, indent=1)
        os.replace(out + ".tmp", out)
    return doc


# ==========================================================================
# main
# ==========================================================================
def build_apps():
    res = appbuild.app_build()
    if res.get("cold"):
        print("# cold build of the apps took %.1fs" % res["build_s"],
              flush=True)
    else:
        print("# apps cached in %s (cold build had taken %.1fs)" %
              (res["dir"], res.get("cold_build_s", -1)), flush=True)
    for t in res["failed"]:
        print("# NOT BUILT on this tree (skipped, not an alarm): %s" % t,
              flush=True)
    # development aid (trying a candidate fix / a mutant built elsewhere):
    # C20_BIN_OVERRIDE="target=/path/to/binary,target2=..."
    ov = os.environ.get("C20_BIN_OVERRIDE", "")
    if ov:
        res = dict(res, bins=dict(res["bins"]))
        for kv in ov.split(","):
            k, v = kv.split("=", 1)
            res["bins"][k] = v
            print("# OVERRIDE %s -> %s (NOT the tree's binary)" % (k, v),
                  flush=True)
    return res


def do_replay(path, repeat):
    doc = json.load(open(path))
    hang = str(doc.get("key", "")).endswith(":hang")
    if repeat <= 0:
        repeat = 1 if hang else 3
    res = build_apps()
    app = [a for a in APPS if a.name == doc["app"]][0]
    var = [v for v in app.variants() if v.name == doc["variant"]][0]
    inp = Input.from_json(doc["input"])
    inp.idx = 0
    if app.target not in res["bins"]:
        print("target %s not built" % app.target)
        return 2
    wd = os.path.join(TMPROOT, "replay-%d" % os.getpid())
    os.makedirs(os.path.join(wd, app.name), exist_ok=True)
    rc = 0
    try:
        runner = Runner(res["bins"], wd, pick_lanes(1), 30 if hang else 120)
        p = runner.graph_path(app, inp)
        cg.write_gr(app.file_graph(inp), p, app.edge_size)
        print("key      :", doc.get("key"))
        print("input    :", inp.g.short(), inp.p)
        print("command  : %s %s" % (app.target, " ".join(
            app.argv("<graph.gr>", inp, var, doc["threads"], doc["j"]))))
        ref = runner.reference(app, inp, var)
        print("reference:", json.dumps(ref, default=str)[:600])
        bad = 0
        for i in range(repeat):
            sym, msg, ans, out, dt = runner.execute(
                app, var, inp, doc["threads"], doc["j"], p, runner.lanes[0])
            if ans is not None:
                ans = {k: v for k, v in ans.items() if not k.startswith("_")}
            print("run %d    : app answer %s -> %s" % (
                i + 1, json.dumps(ans), "OK" if sym is None else
                "VIOLATION %s: %s" % (sym, msg)))
            if sym is not None:
                bad += 1
                if i == 0:
                    tail = [x for x in out.strip().splitlines()
                            if not x.startswith(("STAT", "PARAM"))][-15:]
                    print("   app output tail:\n      " + "\n      ".join(tail))
        print("%d/%d runs violate" % (bad, repeat))
        rc = 1 if bad else 0
    finally:
        shutil.rmtree(wd, ignore_errors=True)
    return rc


def main():
    a = sys.argv[1:]
    opt = dict(tier="quick", out=None, deadline=None, replay=None, repeat=0,
               app=None, case=None, lanes=3, keep=False, list=False)
    i = 0
    while i < len(a):
        k = a[i]
        if k in ("--tier", "--out", "--deadline", "--replay", "--repeat",
                 "--app", "--case", "--lanes", "--jobs", "--seed"):
            if i + 1 >= len(a):
                print("missing value for", k)
                return 2
            v = a[i + 1]
            i += 2
            if k == "--app":
                opt["app"] = (opt["app"] or []) + v.split(",")
            elif k in ("--jobs", "--seed"):
                pass
            else:
                opt[k[2:]] = v
        elif k == "--keep":
            opt["keep"] = True
            i += 1
        elif k == "--list":
            opt["list"] = True
            i += 1
        else:
            print("unknown argument", k)
            return 2
    if opt["replay"]:
        return do_replay(opt["replay"], int(opt["repeat"]))
    tier = opt["tier"]
    if tier not in ("quick", "thorough"):
        print("tier must be quick or thorough")
        return 2
    t0 = time.time()
    deadline = float(opt["deadline"]) if opt["deadline"] else (
        240.0 if tier == "quick" else 1800.0)
    if opt["list"]:
        bins = {t: t for t in appbuild.TARGETS}
        cases, _ = make_plan(tier, bins, opt["app"], opt["case"])
        tot = 0
        for c in cases:
            print("%-44s inputs %5d  runs %6d" % (
                c.name, len(set(j.inp.name for j in c.jobs)), len(c.jobs)))
            tot += len(c.jobs)
        print("total runs", tot)
        return 0
    res = build_apps()
    t_built = time.time()
    cases, skipped = make_plan(tier, res["bins"], opt["app"], opt["case"])
    for app in skipped:
        print("# SKIPPED app %s: target %s did not build" %
              (app.name, app.target), flush=True)
    if not cases:
        print("no case selected")
        return 2
    wd = os.path.join(TMPROOT, "run-%d" % os.getpid())
    os.makedirs(wd, exist_ok=True)

    def cleanup():
        for pr in list(LIVE):
            try:
                pr.kill()
            except OSError:
                pass
        if not opt["keep"]:
            shutil.rmtree(wd, ignore_errors=True)
            try:
                os.rmdir(TMPROOT)
            except OSError:
                pass
    atexit.register(cleanup)
    signal.signal(signal.SIGTERM, lambda *_: sys.exit(2))
    lanes = pick_lanes(int(opt["lanes"]))
    runner = Runner(res["bins"], wd, lanes, RUN_TIMEOUT[tier])
    nfiles = runner.write_graphs(cases)
    total = sum(len(c.jobs) for c in cases)
    print("# C20 %s: %d cases (app x variant), %d graph files, %d planned "
          "runs, -t in %s, %d lanes of 4 CPUs %s, schedules uncontrolled" %
          (tier, len(cases), nfiles, total, list(THREADS), len(lanes), lanes),
          flush=True)
    # the deadline covers the whole part; a cold build eats into it, but the
    # runs always get at least half of it
    spent = t_built - t0
    # 12% (at least 25 s) is kept back for re-running failing inputs
    budget = max(deadline * 0.5, deadline - spent) - max(25.0, 0.12 * deadline)
    deadline_at = time.time() + max(20.0, budget)
    stopped = run_all(runner, cases, deadline_at)
    viol = confirm_failures(runner, cases)
    wall = time.time() - t0
    meta = dict(build=dict(dir=res["dir"], cold=bool(res.get("cold")),
                           cold_build_s=res.get("cold_build_s"),
                           not_built=res["failed"]),
                schedules="uncontrolled", lanes=len(lanes))
    emit(opt["out"], tier, cases, viol, wall, stopped, meta)
    byapp = {}
    for c in cases:
        d = byapp.setdefault(c.app.name, [0, 0, 0, 0, 0])
        d[0] += 1
        d[1] += len(set(j.inp.name for j in c.jobs))
        d[2] += c.done
        d[3] += len(c.jobs)
        d[4] += len(c.fail)
    for c in cases:
        print("case %-42s exhaustive=%d runs=%d/%d inputs=%d nontrivial=%d "
              "outcomes=%d failures=%d%s" % (
                  c.name, c.done == len(c.jobs), c.done, len(c.jobs),
                  len(c.inputs_run), c.nontrivial, len(c.outcomes),
                  len(c.fail), (" skipped_after_%d_hangs=%d" %
                                (c.hangs, c.skipped)) if c.skipped else ""),
              flush=True)
    for n, d in byapp.items():
        print("# app %-12s variants=%d runs=%d/%d failing_runs=%d" %
              (n, d[0], d[2], d[3], d[4]))
    if stopped:
        print("# DEADLINE: stopped dispatching after %.0fs; cases with "
              "exhaustive=0 are incomplete" % (time.time() - t0))
    if runner.machinery:
        for m in runner.machinery[:5]:
            print("# MACHINERY:", m)
        return 2
    nv = sum(1 for vs in viol.values() for v in vs if v["confirmed"])
    print("# done: %d cases, %d runs, %d findings, %.1fs" %
          (len(cases), sum(c.done for c in cases), nv, wall), flush=True)
    return 1 if nv else 0


if __name__ == "__main__":
    sys.exit(main())

// C17 (serialisation half): "Deserialising what was serialised yields equal
// values for every supported type and any concatenation of them ... at any
// byte alignment of the buffer, consuming exactly the bytes that were
// produced."  Engine E2 (seqx).  DESIGN.md 7/C17 first bullet, 8-7.
//
// Code under test: the REAL /repo/libdist/include/galois/runtime/Serialize.h
// (gSerialize / gDeserialize / gSized, SerializeBuffer / DeSerializeBuffer) and
// the containers it serialises (PODResizeableArray, gdeque, DynamicBitSet,
// CopyableAtomic, CopyableTuple).  Serialize.h is header-only as far as this
// harness is concerned: nothing from libdist/src/*.cpp is needed, and no MPI.
// SendBuffer / RecvBuffer are the aliases Network.h:43-45 gives to
// SerializeBuffer / DeSerializeBuffer; Network.h itself includes <mpi.h>, so the
// two aliases are repeated here instead of including it.
//
// Cases
//  E1 "roundtrip/seq"      every sequence of <= 3 (quick) / <= 4 (thorough)
//                          values of the alphabet below, one gSerialize call
//                          per value, after 0..7 pad bytes; then one
//                          gDeserialize per value in the same order.
//  E2 "roundtrip/variadic" the same through ONE gSized(a,b,..), ONE
//                          gSerialize(buf,a,b,..) and ONE gDeserialize(buf,
//                          a,b,..) call.  A variadic call needs the static
//                          types, i.e. one template instantiation per type
//                          tuple: arity 1 and 2 over every type that the
//                          public entry point accepts (27), arity 3 over 11
//                          code-path representatives, arity 4 (thorough) over
//                          6.  (gSerialize(buf,t1,rest...) is
//                          reserve(gSized(all)); gSerializeObj(t1);
//                          gSerialize(buf,rest...) - the per-type code is the
//                          same as in E1.)
//  E3 "gSized-vs-bytes"    for every value x pad: gSized(v) == number of bytes
//                          gSerialize(buf,v) appended.  Kept out of E1 because
//                          gSized does not look at the buffer, and E1 checks
//                          that the bytes a value produces do not depend on
//                          what precedes it - together: gSized == bytes
//                          produced in every context.
//  E4 "entry-points"       per type: do the three overloads the public entry
//                          points need (internal::gSizedObj / gSerializeObj /
//                          gDeserializeObj) exist?  gSerialize(buf, x) calls
//                          gSized(x), so a type with a write and a read
//                          overload but no size overload cannot be serialised
//                          through the documented entry point at all
//                          (DESIGN 8-7: std::deque).
//  E5 "reuse-target"       gDeserialize into an object that already holds
//                          another value of the same type.
//  E6 "compile-probes"     E4 sees declarations only; here the compiler is run
//                          (syntax only, ~2 s per probe, 16 at a time) on
//                          gSerialize(buf,x) / gSized(x) / gDeserialize(buf,x)
//                          for 18 type expressions (incl. pairs with string /
//                          vector members, which E4 cannot judge).
//  B1 "buffer-ops"         history BFS of SerializeBuffer / DeSerializeBuffer
//                          operations and the moves between them against two
//                          std::vector<uint8_t> and an offset.
//
// Alphabet (E1): 34 types, 74 values (2-4 per type incl. the empty one):
// uint8/32/64, double, std::pair<int,double>, galois::Pair, galois::
// TupleOfThree, a trivially copyable struct, a struct with the tt_is_copyable
// trait, std::string ("", 3, 100 chars), std::vector of int / uint8_t /
// uint64_t / struct / string / pair / vector<int> / CopyableAtomic<int> / a
// user type, PODResizeableArray<int|uint64_t>, gdeque<int,2> (2 per block),
// gdeque<string>, DynamicBitSet (0/5/128/130 bits), a nested SerializeBuffer,
// the unread rest of a DeSerializeBuffer, a user type with serialize()/
// deserialize(); and, written through internal::gSerializeObj because the
// public entry point does not compile for them (E4/E6): std::deque<int|string>,
// CopyableAtomic<int>, galois::Pair<int,string>, std::pair<string,vector<int>>;
// std::tuple<int,double,string> (elements written one by one, read through
// the tuple overload); vector<int> written through the lazy interface.
//
// Oracle (E1/E2): each deserialised value equals the serialised one; each
// gDeserialize consumes exactly the bytes its gSerialize produced; the pad
// bytes are intact; at the end offset == size and r_size() == 0 (nothing left,
// no over-read - ASan cannot see an over-read inside PODResizeableArray's
// power-of-two capacity, hence the explicit offset checks); in E2
// gSized(a,b,..) == gSized(a)+gSized(b)+.. .
//
// Non-trivial rule (E1/E2): the run has >= 2 values of >= 2 different types.
// (B1): a Send->Recv transfer happened and the receive side was read.
//
// Types left out because Serialize.h does not support them (no defect):
//  * std::vector<bool>: the generic vector overload needs data(); does not
//    compile, no overload claims it.
//  * std::tuple on the WRITE side: there is only a read overload
//    (gDeserializeObj(std::tuple<T...>&)); galois::TupleOfThree is the tuple
//    the library serialises.  The read overload is exercised by writing the
//    elements one by one.
//  * SerializeBuffer / DeSerializeBuffer on the READ side: they are appended
//    raw (no length prefix) and read back as their contents.
//  * galois::InsertBag: write overload is #if 0'd.
//  * std::vector<DynamicBitSet>, std::deque<DynamicBitSet>,
//    std::vector<std::deque<T>>: do not compile (deleted copy / overload
//    declared after the sequence helper); nothing claims them.
#include "seqx.h"

#include "galois/Galois.h"
#include "galois/runtime/Serialize.h"

#include <deque>
#include <memory>
#include <sched.h>
#include <set>
#include <string>
#include <tuple>
#include <vector>

using sx::fail;
namespace gr = galois::runtime;
using SendBuffer = gr::SerializeBuffer;   // Network.h:43
using RecvBuffer = gr::DeSerializeBuffer; // Network.h:45

// gdeque allocates its blocks from the Galois runtime heaps.  Created inside
// the worker process (threads do not survive fork), once.  The thread pool pins
// the calling thread to core 0; the 16 worker processes would all share that
// core, so the original affinity mask is restored afterwards (this harness
// runs no parallel loops).
static void rt() {
  static galois::SharedMemSys* G = [] {
    cpu_set_t mask;
    bool have = sched_getaffinity(0, sizeof mask, &mask) == 0;
    auto* g   = new galois::SharedMemSys();
    if (have)
      sched_setaffinity(0, sizeof mask, &mask);
    return g;
  }();
  (void)G;
}

// One run takes microseconds.  A wrong length read from the buffer can turn
// into a loop of 2^60 iterations; the alarm turns such a hang into a dead
// worker, which the driver reports as <case>:crash for the input.
struct Watchdog {
  Watchdog() { alarm(30); }
  ~Watchdog() { alarm(0); }
};

#ifdef C17_PROBE_PUBLIC_DEQUE
// g++ ... -DC17_PROBE_PUBLIC_DEQUE -fsyntax-only reproduces finding 8-7:
//   Serialize.h:445: error: no matching function for call to
//   'gSizedObj(const std::deque<int>&)'
void probe_public_deque(SendBuffer& b, const std::deque<int>& d) {
  gr::gSerialize(b, d);
}
#endif

// ---------------------------------------------------------------------------
// overload detection (the expressions the public entry points evaluate)
// ---------------------------------------------------------------------------
template <class T, class = void>
struct has_sized : std::false_type {};
template <class T>
struct has_sized<T, std::void_t<decltype(gr::internal::gSizedObj(
                        std::declval<const T&>()))>> : std::true_type {};
template <class T, class = void>
struct has_ser : std::false_type {};
template <class T>
struct has_ser<T, std::void_t<decltype(gr::internal::gSerializeObj(
                      std::declval<SendBuffer&>(), std::declval<const T&>()))>>
    : std::true_type {};
template <class T, class = void>
struct has_deser : std::false_type {};
template <class T>
struct has_deser<T, std::void_t<decltype(gr::internal::gDeserializeObj(
                        std::declval<RecvBuffer&>(), std::declval<T&>()))>>
    : std::true_type {};

static const size_t NOSIZE = ~size_t(0);

// The driver counts distinct outcomes in a table of 2^22 slots; nearly every
// input here has its own wire image, so the outcome is folded to 18 bits (the
// count is a vacuity signal, not a measure).
static void outcome18(uint64_t h) {
  sx::outcome(sx::mix(h, 17) & 0x3FFFF);
}

// ---------------------------------------------------------------------------
// user types
// ---------------------------------------------------------------------------
struct Pod { // trivially copyable, alignof 8, interior + tail padding
  int a;
  double b;
  char c;
};
static bool operator==(const Pod& x, const Pod& y) {
  return x.a == y.a && x.b == y.b && x.c == y.c;
}
static_assert(std::is_trivially_copyable<Pod>::value, "");

struct UserCopyable { // NOT trivially copyable, declares the trait
  using tt_is_copyable = int;
  int a     = 0;
  double b  = 0;
  char t[5] = {0, 0, 0, 0, 0};
  UserCopyable() {}
  UserCopyable(int a_, double b_, const char* s) : a(a_), b(b_) {
    strncpy(t, s, 4);
  }
  UserCopyable(const UserCopyable& o) : a(o.a), b(o.b) { memcpy(t, o.t, 5); }
  UserCopyable& operator=(const UserCopyable& o) {
    a = o.a;
    b = o.b;
    memcpy(t, o.t, 5);
    return *this;
  }
  bool operator==(const UserCopyable& o) const {
    return a == o.a && b == o.b && memcmp(t, o.t, 5) == 0;
  }
};
static_assert(!std::is_trivially_copyable<UserCopyable>::value, "");
static_assert(gr::is_memory_copyable<UserCopyable>::value, "");

struct UserSer { // serialize/deserialize members + trait
  using tt_has_serialize = int;
  int id = 0;
  std::string name;
  std::vector<int> v;
  void serialize(SendBuffer& b) const { gr::gSerialize(b, id, name, v); }
  void deserialize(RecvBuffer& b) {
    name.clear(); // a user type resets its own members
    gr::gDeserialize(b, id, name, v);
  }
  bool operator==(const UserSer& o) const {
    return id == o.id && name == o.name && v == o.v;
  }
};
static_assert(!gr::is_memory_copyable<UserSer>::value, "");

// A nested buffer: the value is (x, s); it is WRITTEN as a SerializeBuffer
// (or the unread remainder of a DeSerializeBuffer) that already holds (x, s)
// and READ as x and s.  Value 0 is the empty buffer (nothing written, nothing
// read).
template <bool ViaRecv>
struct Nested {
  using tt_has_serialize = int; // read side only (deserialize member)
  bool empty             = true;
  uint32_t x             = 0;
  std::string s;
  SendBuffer inner;                // ViaRecv == false
  std::unique_ptr<RecvBuffer> rin; // ViaRecv == true: 2 junk bytes, offset 2
  void set(bool e, uint32_t x_, const std::string& s_) {
    empty = e;
    x     = e ? 0 : x_;
    s     = e ? std::string() : s_;
    SendBuffer tmp;
    if (ViaRecv) {
      tmp.push((char)0xEE);
      tmp.push((char)0xEF);
    }
    if (!e)
      gr::gSerialize(tmp, x, s);
    if (ViaRecv) {
      rin.reset(new RecvBuffer(std::move(tmp)));
      rin->setOffset(2);
    } else {
      gr::gSerialize(inner, tmp); // SerializeBuffer has no move assignment
    }
  }
  void serialize(SendBuffer&) const; // never called (not defined)
  void deserialize(RecvBuffer& b) {
    x = 0; // a user type resets its own members
    s.clear();
    if (!empty)
      gr::gDeserialize(b, x, s);
  }
};

// A vector<int> WRITTEN through the lazy interface (gSerializeLazySeq reserves
// the space, gSerializeLazy fills the items later, here last to first) and
// READ as an ordinary std::vector<int>.
struct LazyVecI {
  std::vector<int> v;
  bool operator==(const LazyVecI& o) const { return v == o.v; }
};

using PairID   = std::pair<int, double>;
using TupIDS   = std::tuple<int, double, std::string>;
using GPairID  = galois::Pair<int, double>;
using GPairIS  = galois::Pair<int, std::string>;
using GTupIDC  = galois::TupleOfThree<int, double, char>;
using VecI     = std::vector<int>;
using VecUS    = std::vector<UserSer>;
using PairSV   = std::pair<std::string, std::vector<int>>;
using VecU8    = std::vector<uint8_t>;
using VecU64   = std::vector<uint64_t>;
using VecS     = std::vector<std::string>;
using VecP     = std::vector<PairID>;
using VecPod   = std::vector<Pod>;
using VecVI    = std::vector<std::vector<int>>;
using VecCA    = std::vector<galois::CopyableAtomic<int>>;
using DeqI     = std::deque<int>;
using DeqS     = std::deque<std::string>;
using GDeqI    = galois::gdeque<int, 2>; // 2 per block: 5 elements = 3 blocks
using GDeqS    = galois::gdeque<std::string>;
using PodArrI  = galois::PODResizeableArray<int>;
using PodArrU64 = galois::PODResizeableArray<uint64_t>; // alignof 8
using CAtomI   = galois::CopyableAtomic<int>;
using NestedS  = Nested<false>;
using NestedR  = Nested<true>;

// ---------------------------------------------------------------------------
// type descriptors
// ---------------------------------------------------------------------------
template <class T>
struct TD;

// how one value is written / sized / read
template <class T, bool Public>
struct IO;
template <class T>
struct IO<T, true> { // through the documented entry points
  using Wire                       = T; // the library type on the wire
  static constexpr bool public_ser = true;
  static void prep(int, T&) {}
  static const T& ser_arg(const T& v) { return v; }
  static void ser(SendBuffer& b, const T& v) { gr::gSerialize(b, v); }
  static size_t sized(const T& v) { return gr::gSized(v); }
  static void deser(RecvBuffer& b, T& v) { gr::gDeserialize(b, v); }
};
template <class T>
struct IO<T, false> { // gSerialize(buf, T) does not compile (see E4): the
                      // write goes through the per-type overload directly
  using Wire                       = T;
  static constexpr bool public_ser = false;
  static void prep(int, T&) {}
  static void ser(SendBuffer& b, const T& v) {
    gr::internal::gSerializeObj(b, v);
  }
  static size_t sized(const T&) { return NOSIZE; }
  static void deser(RecvBuffer& b, T& v) { gr::gDeserialize(b, v); }
};

template <class T>
struct Regular { // copyable with operator==
  static int nvals() { return (int)TD<T>::vals().size(); }
  static void make(int i, T& out) { out = TD<T>::vals()[i]; }
  static bool eq(const T& a, const T& b) { return a == b; }
};

// Violation keys name the defect, not the instantiation (see family_of below).
// gSizedSeq (Serialize.h:325) charges sizeof(uintptr_t) per element for these:
#define SEQ_OF_NON_COPYABLE "sequence-of-non-memory-copyable-elements"
struct NoExtra {};
struct SizedSeqFamily {
  static const char* sized_family() { return SEQ_OF_NON_COPYABLE; }
};
struct DequeFamily {
  static const char* family() { return "std::deque<T>"; }
};
#define TD_REGULAR(T, PUB, NAME, ...)                                          \
  TD_REGULAR_X(T, PUB, NoExtra, NAME, __VA_ARGS__)
#define TD_REGULAR_X(T, PUB, EXTRA, NAME, ...)                                 \
  template <>                                                                  \
  struct TD<T> : Regular<T>, IO<T, PUB>, EXTRA {                               \
    static const char* name() { return NAME; }                                 \
    static const std::vector<T>& vals() {                                      \
      static const std::vector<T> v{__VA_ARGS__};                              \
      return v;                                                                \
    }                                                                          \
  };

static const std::string S100(
    "0123456789abcdefghijklmnopqrstuvwxyzABCDEFGHIJKLMNOPQRSTUVWXYZ"
    "0123456789abcdefghijklmnopqrstuvwxyz.."); // 100 characters

TD_REGULAR(uint8_t, true, "uint8_t", 0x5A, 0xFF)
TD_REGULAR(uint32_t, true, "uint32_t", 0u, 0xDEADBEEFu)
TD_REGULAR(uint64_t, true, "uint64_t", 1ull, 0x0123456789ABCDEFull)
TD_REGULAR(double, true, "double", 0.0, -1.5e300)
TD_REGULAR(PairID, true, "std::pair<int,double>", PairID(0, 0.0),
           PairID(-7, 2.5))
TD_REGULAR(Pod, true, "Pod{int,double,char}", Pod{-3, 6.25, 'q'})
TD_REGULAR(UserCopyable, true, "UserCopyable(tt_is_copyable)", UserCopyable(),
           UserCopyable(77, -0.125, "wxyz"))
struct HasSerializeFamily {
  // gSizedObj for has_serialize types returns sizeof(uintptr_t) (and says so)
  static const char* sized_family() { return "type-with-serialize-member"; }
};
TD_REGULAR_X(UserSer, true, HasSerializeFamily, "UserSer(tt_has_serialize)",
             UserSer(), UserSer{5, "name", {9, 8, 7}})
TD_REGULAR_X(VecUS, true, SizedSeqFamily, "std::vector<UserSer>", VecUS{},
             VecUS{UserSer{1, "", {}}, UserSer{2, "two", {2, 2}}})
// gSized(std::pair<string,..>) does not compile (E6): internal write
TD_REGULAR(PairSV, false, "std::pair<std::string,std::vector<int>>",
           PairSV("", VecI{}), PairSV("key", VecI{3, 1, 4}))
TD_REGULAR(std::string, true, "std::string", std::string(), std::string("abc"),
           S100)
TD_REGULAR(VecI, true, "std::vector<int>", VecI{}, VecI{42},
           VecI{1, -2, 3, -4, 5})
TD_REGULAR(VecU8, true, "std::vector<uint8_t>", VecU8{}, VecU8{1, 2, 3})
TD_REGULAR(VecU64, true, "std::vector<uint64_t>", VecU64{},
           VecU64{1, 0xFFFFFFFFFFFFFFFFull, 0x8000000000000001ull})
TD_REGULAR(VecPod, true, "std::vector<Pod>", VecPod{},
           VecPod{Pod{1, 1.5, 'a'}, Pod{2, -2.5, 'b'}})
TD_REGULAR_X(VecS, true, SizedSeqFamily, "std::vector<std::string>", VecS{},
             VecS{""}, VecS{"x", "", "hello world"})
TD_REGULAR_X(VecP, true, SizedSeqFamily, "std::vector<std::pair<int,double>>",
             VecP{}, VecP{PairID(1, 1.5), PairID(2, -2.5)})
TD_REGULAR_X(VecVI, true, SizedSeqFamily, "std::vector<std::vector<int>>",
             VecVI{}, VecVI{VecI{}, VecI{1, 2}})
TD_REGULAR_X(DeqI, false, DequeFamily, "std::deque<int>", DeqI{}, DeqI{7},
             DeqI{1, 2, 3, 4, 5})
TD_REGULAR_X(DeqS, false, DequeFamily, "std::deque<std::string>", DeqS{},
             DeqS{"ab", "", "c"})

// std::tuple: written element by element, read through the tuple overload
template <>
struct TD<TupIDS> : Regular<TupIDS> {
  using Wire                       = TupIDS;
  static constexpr bool public_ser = false; // not in the variadic case
  static void prep(int, TupIDS&) {}
  static const char* name() {
    return "std::tuple<int,double,std::string>(written as elements)";
  }
  static const std::vector<TupIDS>& vals() {
    static const std::vector<TupIDS> v{TupIDS(0, 0.0, ""),
                                       TupIDS(-9, 0.5, "tuple")};
    return v;
  }
  static void ser(SendBuffer& b, const TupIDS& t) {
    gr::gSerialize(b, std::get<0>(t), std::get<1>(t), std::get<2>(t));
  }
  static size_t sized(const TupIDS& t) {
    return gr::gSized(std::get<0>(t), std::get<1>(t), std::get<2>(t));
  }
  static void deser(RecvBuffer& b, TupIDS& t) { gr::gDeserialize(b, t); }
};

template <>
struct TD<LazyVecI> : Regular<LazyVecI> {
  using Wire                       = std::vector<int>;
  static constexpr bool public_ser = false; // not in the variadic case
  static void prep(int, LazyVecI&) {}
  static const char* name() {
    return "std::vector<int>(written with gSerializeLazySeq/gSerializeLazy)";
  }
  static const std::vector<LazyVecI>& vals() {
    static const std::vector<LazyVecI> v{LazyVecI{{}}, LazyVecI{{11, -22, 33}}};
    return v;
  }
  static void ser(SendBuffer& b, const LazyVecI& l) {
    auto ref = gr::gSerializeLazySeq(b, (unsigned)l.v.size(),
                                     (std::vector<int>*)nullptr);
    for (size_t i = l.v.size(); i-- > 0;)
      gr::gSerializeLazy(b, ref, (unsigned)i, int(l.v[i]));
  }
  static size_t sized(const LazyVecI& l) { return gr::gSized(l.v); }
  static void deser(RecvBuffer& b, LazyVecI& l) { gr::gDeserialize(b, l.v); }
};

// galois::Pair / TupleOfThree (memcpy of the whole struct incl. padding:
// compare members)
template <>
struct TD<GPairID> : IO<GPairID, true> {
  static const char* name() { return "galois::Pair<int,double>"; }
  static int nvals() { return 2; }
  static void make(int i, GPairID& o) {
    o.first  = i ? -11 : 0;
    o.second = i ? 3.5 : 0.0;
  }
  static bool eq(const GPairID& a, const GPairID& b) {
    return a.first == b.first && a.second == b.second;
  }
};
template <>
struct TD<GTupIDC> : IO<GTupIDC, true> {
  static const char* name() {
    return "galois::TupleOfThree<int,double,char>";
  }
  static int nvals() { return 1; }
  static void make(int, GTupIDC& o) {
    o.first  = 21;
    o.second = -4.75;
    o.third  = 'z';
  }
  static bool eq(const GTupIDC& a, const GTupIDC& b) {
    return a.first == b.first && a.second == b.second && a.third == b.third;
  }
};
template <>
struct TD<GPairIS> : IO<GPairIS, false> {
  static const char* name() { return "galois::Pair<int,std::string>"; }
  static const char* family() {
    return "galois::Pair<T1,T2>-with-non-memory-copyable-member";
  }
  static int nvals() { return 2; }
  static void make(int i, GPairIS& o) {
    o.first  = i ? 4 : 0;
    o.second = i ? "four" : "";
  }
  static bool eq(const GPairIS& a, const GPairIS& b) {
    return a.first == b.first && a.second == b.second;
  }
};

// CopyableAtomic
template <>
struct TD<CAtomI> : IO<CAtomI, false> {
  static const char* name() { return "galois::CopyableAtomic<int>"; }
  static const char* family() { return "galois::CopyableAtomic<T>"; }
  static int nvals() { return 2; }
  static void make(int i, CAtomI& o) { o.store(i ? -5 : 0); }
  static bool eq(const CAtomI& a, const CAtomI& b) {
    return a.load() == b.load();
  }
};
template <>
struct TD<VecCA> : IO<VecCA, true>, SizedSeqFamily {
  static const char* name() {
    return "std::vector<galois::CopyableAtomic<int>>";
  }
  static int nvals() { return 2; }
  static void make(int i, VecCA& o) {
    o.clear();
    if (i)
      for (int k = 1; k <= 3; ++k)
        o.push_back(CAtomI(k * 1000 - 1));
  }
  static bool eq(const VecCA& a, const VecCA& b) {
    if (a.size() != b.size())
      return false;
    for (size_t i = 0; i < a.size(); ++i)
      if (a[i].load() != b[i].load())
        return false;
    return true;
  }
};

// push_back-able sequences that cannot be copied
template <class T>
struct SeqTD {
  static void fill(T& o, const std::vector<typename T::value_type>& v) {
    o.clear();
    for (auto& x : v)
      o.push_back(x);
  }
  static bool eq(const T& a, const T& b) {
    if (a.size() != b.size())
      return false;
    auto i = a.begin();
    auto j = b.begin();
    for (; i != a.end(); ++i, ++j)
      if (!(*i == *j))
        return false;
    return j == b.end();
  }
};
template <>
struct TD<GDeqI> : SeqTD<GDeqI>, IO<GDeqI, true> {
  static const char* name() { return "galois::gdeque<int,2>"; }
  static int nvals() { return 3; }
  static void make(int i, GDeqI& o) {
    rt();
    fill(o, i == 0 ? VecI{} : i == 1 ? VecI{9} : VecI{1, 2, 3, 4, 5});
  }
};
template <>
struct TD<GDeqS> : SeqTD<GDeqS>, IO<GDeqS, true>, SizedSeqFamily {
  static const char* name() { return "galois::gdeque<std::string>"; }
  static int nvals() { return 2; }
  static void make(int i, GDeqS& o) {
    rt();
    fill(o, i == 0 ? VecS{} : VecS{"g", "", "deque"});
  }
};
template <>
struct TD<PodArrI> : SeqTD<PodArrI>, IO<PodArrI, true> {
  static const char* name() { return "galois::PODResizeableArray<int>"; }
  static int nvals() { return 3; }
  static void make(int i, PodArrI& o) {
    fill(o, i == 0 ? VecI{} : i == 1 ? VecI{5} : VecI{5, 4, 3, 2, 1});
  }
};
template <>
struct TD<PodArrU64> : SeqTD<PodArrU64>, IO<PodArrU64, true> {
  static const char* name() { return "galois::PODResizeableArray<uint64_t>"; }
  static int nvals() { return 2; }
  static void make(int i, PodArrU64& o) {
    fill(o, i == 0 ? VecU64{} : VecU64{3, 0xAAAAAAAA55555555ull});
  }
};

// DynamicBitSet
template <>
struct TD<galois::DynamicBitSet> : IO<galois::DynamicBitSet, true> {
  using T = galois::DynamicBitSet;
  static const char* name() { return "galois::DynamicBitSet"; }
  static int nvals() { return 4; }
  static void make(int i, T& o) {
    switch (i) {
    case 0:
      o.resize(0);
      break;
    case 1: // 1 word
      o.resize(5);
      o.set(0);
      o.set(3);
      break;
    case 2: // 2 words
      o.resize(128);
      o.set(1);
      o.set(127);
      break;
    default: // 3 words, last partly used
      o.resize(130);
      o.set(0);
      o.set(64);
      o.set(129);
    }
  }
  static bool eq(const T& a, const T& b) {
    if (a.size() != b.size() || a.get_vec().size() != b.get_vec().size())
      return false;
    for (size_t i = 0; i < a.size(); ++i)
      if (a.test(i) != b.test(i))
        return false;
    for (size_t i = 0; i < a.get_vec().size(); ++i)
      if (a.get_vec()[i].load() != b.get_vec()[i].load())
        return false;
    return true;
  }
};

// nested buffers
template <bool R>
struct TD<Nested<R>> {
  using T    = Nested<R>;
  using Wire = typename std::conditional<R, RecvBuffer, SendBuffer>::type;
  static constexpr bool public_ser = true;
  // the read side of a raw nested buffer has to know what is in it
  static void prep(int i, T& target) { target.empty = i == 0; }
  static const char* name() {
    return R ? "DeSerializeBuffer-remainder{uint32_t,std::string}"
             : "nested-SerializeBuffer{uint32_t,std::string}";
  }
  static int nvals() { return 2; }
  static void make(int i, T& o) { o.set(i == 0, 0xC0FFEE01u, "nested"); }
  static bool eq(const T& a, const T& b) {
    return a.empty == b.empty && a.x == b.x && a.s == b.s;
  }
  static const Wire& ser_arg(const T& v) {
    if constexpr (R)
      return *v.rin;
    else
      return v.inner;
  }
  static void ser(SendBuffer& b, const T& v) { gr::gSerialize(b, ser_arg(v)); }
  static size_t sized(const T& v) { return gr::gSized(ser_arg(v)); }
  static void deser(RecvBuffer& b, T& v) { gr::gDeserialize(b, v); }
};

// Violation keys name the defect, not the instantiation: a descriptor may give
// the family its type belongs to for the entry-point check (family) and for
// the gSized check (sized_family); the default is the type's own name.
template <class D, class = void>
struct family_of {
  static const char* get() { return D::name(); }
};
template <class D>
struct family_of<D, std::void_t<decltype(D::family())>> {
  static const char* get() { return D::family(); }
};
template <class D, class = void>
struct sized_family_of {
  static const char* get() { return D::name(); }
};
template <class D>
struct sized_family_of<D, std::void_t<decltype(D::sized_family())>> {
  static const char* get() { return D::sized_family(); }
};
// ---------------------------------------------------------------------------
// type-erased table
// ---------------------------------------------------------------------------
struct TypeOps {
  const char* name;
  const char *family, *sized_family;
  int nvals;
  bool public_ser, sized_ovl, ser_ovl, deser_ovl;
  void* (*create)();
  void (*destroy)(void*);
  void (*make)(int, void*);
  void (*prep)(int, void*); // tell a read target which value is coming
  bool (*eq)(const void*, const void*);
  void (*ser)(SendBuffer&, const void*);
  size_t (*sized)(const void*);
  void (*deser)(RecvBuffer&, void*);
};

template <class T>
struct Erase {
  static void* create() { return new T(); }
  static void destroy(void* p) { delete (T*)p; }
  static void make(int i, void* p) { TD<T>::make(i, *(T*)p); }
  static void prep(int i, void* p) { TD<T>::prep(i, *(T*)p); }
  static bool eq(const void* a, const void* b) {
    return TD<T>::eq(*(const T*)a, *(const T*)b);
  }
  static void ser(SendBuffer& b, const void* p) {
    TD<T>::ser(b, *(const T*)p);
  }
  static size_t sized(const void* p) { return TD<T>::sized(*(const T*)p); }
  static void deser(RecvBuffer& b, void* p) { TD<T>::deser(b, *(T*)p); }
  static TypeOps ops() {
    return TypeOps{TD<T>::name(),
                   family_of<TD<T>>::get(),
                   sized_family_of<TD<T>>::get(),
                   TD<T>::nvals(),
                   TD<T>::public_ser,
                   has_sized<typename TD<T>::Wire>::value,
                   has_ser<typename TD<T>::Wire>::value,
                   has_deser<typename TD<T>::Wire>::value,
                   create,
                   destroy,
                   make,
                   prep,
                   eq,
                   ser,
                   sized,
                   deser};
  }
};

template <class... Ts>
struct TL {
  static constexpr int size = sizeof...(Ts);
};

// the alphabet, simplest first
using AllTypes =
    TL<uint8_t, uint32_t, uint64_t, double, PairID, GPairID, GTupIDC, Pod,
       UserCopyable, std::string, VecI, VecU8, VecU64, VecPod, PodArrI,
       PodArrU64, VecS, VecP, VecVI, VecCA, GDeqI, GDeqS, galois::DynamicBitSet,
       NestedS, NestedR, UserSer, VecUS,
       // no public gSerialize (E4, E6): written through internal::gSerializeObj
       DeqI, DeqS, CAtomI, GPairIS, PairSV,
       // read overload only / lazy write interface
       TupIDS, LazyVecI>;
// every type above whose public gSerialize / gSized compile
using VarAll =
    TL<uint8_t, uint32_t, uint64_t, double, PairID, GPairID, GTupIDC, Pod,
       UserCopyable, std::string, VecI, VecU8, VecU64, VecPod, PodArrI,
       PodArrU64, VecS, VecP, VecVI, VecCA, GDeqI, GDeqS, galois::DynamicBitSet,
       NestedS, NestedR, UserSer, VecUS>;
// one type per code path: 1-byte memcpy (shifts the alignment), 8-byte
// memcpy, element-wise pair, string, linear sequence alignof 4 / alignof 8,
// element-wise sequence, gdeque, bitset, raw nested buffer, user serialize()
using VarR3 = TL<uint8_t, uint64_t, PairID, std::string, VecI, VecU64, VecS,
                 GDeqI, galois::DynamicBitSet, NestedS, UserSer>;
using VarR4 = TL<uint8_t, std::string, VecU64, VecS, galois::DynamicBitSet,
                 UserSer>;

template <class L>
struct OpsOf;
template <class... Ts>
struct OpsOf<TL<Ts...>> {
  static std::vector<TypeOps> get() { return {Erase<Ts>::ops()...}; }
};

static const std::vector<TypeOps>& types() {
  static const std::vector<TypeOps> t = OpsOf<AllTypes>::get();
  return t;
}
static int type_index(const char* name) {
  for (size_t i = 0; i < types().size(); ++i)
    if (!strcmp(types()[i].name, name))
      return (int)i;
  abort();
}

struct Sym {
  int type, val;
};
static const std::vector<Sym>& syms() {
  static const std::vector<Sym> s = [] {
    std::vector<Sym> r;
    for (size_t t = 0; t < types().size(); ++t)
      for (int v = 0; v < types()[t].nvals; ++v)
        r.push_back(Sym{(int)t, v});
    return r;
  }();
  return s;
}
static std::string sym_name(const Sym& s) {
  return std::string(types()[s.type].name) + "#" + std::to_string(s.val);
}

// source values are immutable: built once per process (lazily - gdeque needs
// the runtime, which must be created in the worker)
static const void* source(const Sym& s) {
  static std::vector<std::vector<void*>> cache(types().size());
  auto& c = cache[s.type];
  if (c.empty())
    c.assign(types()[s.type].nvals, nullptr);
  if (!c[s.val]) {
    void* p = types()[s.type].create();
    types()[s.type].make(s.val, p);
    c[s.val] = p;
  }
  return c[s.val];
}

struct Target { // a fresh default-constructed object of a type
  const TypeOps* t;
  void* p;
  explicit Target(const TypeOps& t_) : t(&t_), p(t_.create()) {}
  Target(const Target&) = delete;
  ~Target() { t->destroy(p); }
};

static std::string hex(const uint8_t* p, size_t n, size_t max = 48) {
  static const char* d = "0123456789abcdef";
  std::string s;
  for (size_t i = 0; i < n && i < max; ++i) {
    s += d[p[i] >> 4];
    s += d[p[i] & 15];
  }
  if (n > max)
    s += "..";
  return s;
}

static uint8_t pad_byte(int i) { return (uint8_t)(0xA1 + 0x11 * i); }

static void put_pad(SendBuffer& buf, int pad) {
  for (int i = 0; i < pad; ++i)
    buf.push((char)pad_byte(i));
  if (buf.size() != (size_t)pad)
    fail("SerializeBuffer:push-size", "after %d push() size is %zu", pad,
         (size_t)buf.size());
}
static void get_pad(RecvBuffer& r, int pad) {
  uint8_t got[8];
  r.extract(got, pad);
  for (int i = 0; i < pad; ++i)
    if (got[i] != pad_byte(i))
      fail("buffer:pad-bytes-corrupted", "pad byte %d is %02x, wrote %02x", i,
           got[i], pad_byte(i));
  if (r.getOffset() != (unsigned)pad)
    fail("DeSerializeBuffer:extract-offset", "offset %u after extracting %d",
         r.getOffset(), pad);
}
static void check_end(RecvBuffer& r, size_t total) {
  if (r.size() != total)
    fail("buffer:size-changed-in-transfer", "receive size %u, sent %zu",
         r.size(), total);
  if (r.getOffset() != r.size() || r.r_size() != 0)
    fail("buffer:leftover-or-overread",
         "after reading everything offset=%u size=%u r_size=%zu",
         r.getOffset(), r.size(), r.r_size());
}

// bytes a value produces when it is the only thing in a buffer
static size_t alone_len(const Sym& s) {
  static std::vector<size_t> cache(types().size() * 16, NOSIZE);
  size_t k = (size_t)s.type * 16 + s.val;
  if (cache[k] == NOSIZE) {
    SendBuffer b;
    types()[s.type].ser(b, source(s));
    cache[k] = b.size();
  }
  return cache[k];
}

// ---------------------------------------------------------------------------
// E1: sequences, one call per value
// ---------------------------------------------------------------------------
static const int NPAD = 8;

struct SeqInput {
  int pad;
  std::vector<Sym> seq;
  std::string str() const {
    std::string s = "pad=" + std::to_string(pad);
    for (auto& y : seq)
      s += "; " + sym_name(y);
    return s;
  }
};
static uint64_t seq_count(bool thorough) {
  uint64_t S = syms().size(), n = 0, p = 1;
  for (int len = 0; len <= (thorough ? 4 : 3); ++len, p *= S)
    n += p;
  return n * NPAD;
}
static SeqInput seq_decode(uint64_t idx) {
  SeqInput in;
  in.pad = idx % NPAD;
  idx /= NPAD;
  uint64_t S = syms().size(), p = 1;
  int len = 0;
  while (idx >= p) {
    idx -= p;
    p *= S;
    ++len;
  }
  for (int i = 0; i < len; ++i) {
    in.seq.push_back(syms()[idx % S]);
    idx /= S;
  }
  return in;
}

static void mark(const std::vector<Sym>& seq) {
  for (size_t i = 1; i < seq.size(); ++i)
    if (seq[i].type != seq[0].type) {
      sx::mark_nontrivial();
      return;
    }
}

static void seq_case(uint64_t idx, bool) {
  rt();
  Watchdog wd;
  SeqInput in = seq_decode(idx);
  size_t n    = in.seq.size();
  SendBuffer buf;
  put_pad(buf, in.pad);
  size_t produced[4];
  for (size_t i = 0; i < n; ++i) {
    const TypeOps& t = types()[in.seq[i].type];
    size_t before    = buf.size();
    t.ser(buf, source(in.seq[i]));
    if (buf.size() < before)
      fail(std::string(t.name) + ":gSerialize-shrinks-buffer",
           "size %zu -> %zu", before, (size_t)buf.size());
    produced[i] = buf.size() - before;
    size_t al   = alone_len(in.seq[i]);
    if (produced[i] != al)
      fail(std::string(t.name) + ":bytes-produced-depend-on-context",
           "value %d produced %zu bytes at offset %zu, %zu bytes alone",
           in.seq[i].val, produced[i], before, al);
  }
  size_t total = buf.size();
  uint64_t h   = total;
  for (size_t i = 0; i < total; ++i)
    h = sx::mix(h, buf.linearData()[i]);
  outcome18(h);
  std::string wire = hex(buf.linearData(), total);

  RecvBuffer r(std::move(buf)); // Send -> Recv, the way the network hands over
  if (buf.size() != 0)
    fail("buffer:moved-from-send-buffer-not-empty", "size %zu",
         (size_t)buf.size());
  get_pad(r, in.pad);
  for (size_t i = 0; i < n; ++i) {
    const TypeOps& t = types()[in.seq[i].type];
    Target tg(t);
    t.prep(in.seq[i].val, tg.p);
    unsigned before = r.getOffset();
    t.deser(r, tg.p);
    size_t consumed = r.getOffset() - before;
    if (r.getOffset() > r.size())
      fail(std::string(t.name) + ":read-past-end",
           "offset %u > size %u after value %zu (%s) wire=%s", r.getOffset(),
           r.size(), i, in.str().c_str(), wire.c_str());
    if (consumed != produced[i])
      fail(std::string(t.name) + ":consumed!=produced",
           "value %zu of [%s]: gSerialize produced %zu bytes, gDeserialize "
           "consumed %zu (started at offset %u) wire=%s",
           i, in.str().c_str(), produced[i], consumed, before, wire.c_str());
    if (!t.eq(source(in.seq[i]), tg.p))
      fail(std::string(t.name) + ":value-mismatch",
           "value %zu of [%s] read at offset %u (offset%%8=%u) differs from "
           "what was written; wire=%s",
           i, in.str().c_str(), before, before % 8, wire.c_str());
  }
  check_end(r, total);
  mark(in.seq);
}

// ---------------------------------------------------------------------------
// E2: one variadic call
// ---------------------------------------------------------------------------
struct VarCtx {
  int pad;
  int n;
  Sym sym[4];
  const void* src[4];
  void* dst[4];
  SendBuffer buf;
  std::unique_ptr<RecvBuffer> r;
  size_t total = 0, sized = 0, produced = 0;
  std::string wire;
  void mid() { // between the write and the read
    total    = buf.size();
    produced = total - pad;
    wire     = hex(buf.linearData(), total);
    uint64_t h = total;
    for (size_t i = 0; i < total; ++i)
      h = sx::mix(h, buf.linearData()[i]);
    outcome18(h);
    // copy construction from iterators (the other way a RecvBuffer is made)
    r.reset(new RecvBuffer(buf.begin(), buf.end()));
    if (buf.size() != total)
      fail("buffer:iterator-copy-changed-source", "size %zu -> %zu", total,
           (size_t)buf.size());
    get_pad(*r, pad);
  }
};

template <class... Ts>
struct VarLeaf {
  template <size_t... I>
  static void run(VarCtx& c, std::index_sequence<I...>) {
    c.sized = gr::gSized(TD<Ts>::ser_arg(*(const Ts*)c.src[I])...);
    gr::gSerialize(c.buf, TD<Ts>::ser_arg(*(const Ts*)c.src[I])...);
    c.mid();
    gr::gDeserialize(*c.r, *(Ts*)c.dst[I]...);
  }
};

// runtime type indices -> static types
template <class List>
struct Disp;
template <class... Us>
struct Disp<TL<Us...>> {
  template <int N, class... Chosen>
  static void go(const int* t, VarCtx& c) {
    if constexpr (N == 0) {
      VarLeaf<Chosen...>::run(c, std::index_sequence_for<Chosen...>());
    } else {
      int k     = 0;
      bool done = ((*t == k++ ? (go<N - 1, Chosen..., Us>(t + 1, c), true)
                              : false) ||
                   ...);
      if (!done)
        abort();
    }
  }
  static std::vector<int> global() { // list index -> index into types()
    return {type_index(TD<Us>::name())...};
  }
};

struct VarCombo {
  int arity;
  int list; // 0 VarAll, 1 VarR3, 2 VarR4
  int t[4]; // indices into the list
  uint64_t first; // first input index of this combo
  uint64_t count;
};
struct VarSpace {
  std::vector<int> glob[3];
  std::vector<VarCombo> combos;
  uint64_t total = 0, total_quick = 0;
};
static const VarSpace& var_space() {
  static const VarSpace vs = [] {
    VarSpace s;
    s.glob[0] = Disp<VarAll>::global();
    s.glob[1] = Disp<VarR3>::global();
    s.glob[2] = Disp<VarR4>::global();
    for (int arity = 1; arity <= 4; ++arity) {
      int list = arity <= 2 ? 0 : arity == 3 ? 1 : 2;
      int L    = (int)s.glob[list].size();
      uint64_t ncomb = 1;
      for (int i = 0; i < arity; ++i)
        ncomb *= L;
      for (uint64_t k = 0; k < ncomb; ++k) {
        VarCombo c;
        c.arity    = arity;
        c.list     = list;
        uint64_t x = k, cnt = NPAD;
        for (int i = 0; i < arity; ++i) {
          c.t[i] = x % L;
          x /= L;
          cnt *= types()[s.glob[list][c.t[i]]].nvals;
        }
        c.first = s.total;
        c.count = cnt;
        s.total += cnt;
        s.combos.push_back(c);
      }
      if (arity == 3)
        s.total_quick = s.total;
    }
    return s;
  }();
  return vs;
}
static const VarCombo& var_decode(uint64_t idx, SeqInput& in) {
  const VarSpace& vs = var_space();
  size_t lo = 0, hi = vs.combos.size() - 1;
  while (lo < hi) {
    size_t m = (lo + hi + 1) / 2;
    if (vs.combos[m].first <= idx)
      lo = m;
    else
      hi = m - 1;
  }
  const VarCombo& c = vs.combos[lo];
  uint64_t x        = idx - c.first;
  in.pad            = x % NPAD;
  x /= NPAD;
  in.seq.clear();
  for (int i = 0; i < c.arity; ++i) {
    int g  = vs.glob[c.list][c.t[i]];
    int nv = types()[g].nvals;
    in.seq.push_back(Sym{g, (int)(x % nv)});
    x /= nv;
  }
  return c;
}

static void var_case(uint64_t idx, bool) {
  rt();
  Watchdog wd;
  SeqInput in;
  const VarCombo& cb = var_decode(idx, in);
  VarCtx c;
  c.pad = in.pad;
  c.n   = cb.arity;
  std::vector<std::unique_ptr<Target>> tg;
  size_t sum_sized = 0;
  for (int i = 0; i < c.n; ++i) {
    const TypeOps& t = types()[in.seq[i].type];
    c.sym[i]         = in.seq[i];
    c.src[i]         = source(in.seq[i]);
    tg.emplace_back(new Target(t));
    c.dst[i] = tg.back()->p;
    t.prep(in.seq[i].val, c.dst[i]);
    sum_sized += t.sized(c.src[i]);
  }
  put_pad(c.buf, c.pad);
  switch (cb.arity) {
  case 1:
    Disp<VarAll>::go<1>(cb.t, c);
    break;
  case 2:
    Disp<VarAll>::go<2>(cb.t, c);
    break;
  case 3:
    Disp<VarR3>::go<3>(cb.t, c);
    break;
  default:
    Disp<VarR4>::go<4>(cb.t, c);
  }
  RecvBuffer& r = *c.r;
  if (c.sized != sum_sized)
    fail("gSized:variadic-not-sum-of-parts",
         "[%s]: gSized(all)=%zu, sum of gSized(each)=%zu", in.str().c_str(),
         c.sized, sum_sized);
  size_t alone = 0;
  for (int i = 0; i < c.n; ++i)
    alone += alone_len(in.seq[i]);
  if (c.produced != alone)
    fail("gSerialize:variadic-bytes!=sum-of-single-calls",
         "[%s]: variadic call appended %zu bytes, single calls %zu; wire=%s",
         in.str().c_str(), c.produced, alone, c.wire.c_str());
  if (r.getOffset() > r.size())
    fail("gDeserialize:variadic-read-past-end", "[%s]: offset %u size %u",
         in.str().c_str(), r.getOffset(), r.size());
  for (int i = 0; i < c.n; ++i) {
    const TypeOps& t = types()[in.seq[i].type];
    if (!t.eq(c.src[i], c.dst[i]))
      fail(std::string(t.name) + ":value-mismatch",
           "variadic value %d of [%s] differs from what was written; wire=%s",
           i, in.str().c_str(), c.wire.c_str());
  }
  check_end(r, c.total);
  mark(in.seq);
}

// ---------------------------------------------------------------------------
// E3: gSized(v) == bytes appended
// ---------------------------------------------------------------------------
// The driver keeps 64 failure records per case and de-duplicates by key
// afterwards; report a key once per worker process so that one type cannot
// crowd out another.
static void fail_once(const std::string& key, const std::string& msg) {
  static std::set<std::string> seen;
  if (seen.insert(key).second)
    fail(key, "%s", msg.c_str());
}

static void sized_case(uint64_t idx, bool) {
  rt();
  Watchdog wd;
  int pad          = idx % NPAD;
  const Sym& s     = syms()[idx / NPAD];
  const TypeOps& t = types()[s.type];
  SendBuffer buf;
  put_pad(buf, pad);
  size_t sz = t.sized(source(s));
  t.ser(buf, source(s));
  size_t produced = buf.size() - pad;
  outcome18(sx::mix(sz, produced));
  if (produced > 8)
    sx::mark_nontrivial(); // more than a scalar / a bare length
  if (sz == NOSIZE)
    return; // no gSizedObj overload at all: E4
  if (sz != produced)
    fail_once("gSized(" + std::string(t.sized_family) + "):!=bytes-produced",
              sym_name(s) + ": gSized = " + std::to_string(sz) +
                  ", gSerialize appended " + std::to_string(produced) +
                  " bytes");
}

// ---------------------------------------------------------------------------
// E4: the overloads the public entry points need
// ---------------------------------------------------------------------------
static void entry_case(uint64_t idx, bool) {
  const TypeOps& t = types()[idx];
  outcome18(t.sized_ovl * 4 + t.ser_ovl * 2 + t.deser_ovl);
  if (t.ser_ovl && t.deser_ovl)
    sx::mark_nontrivial();
  // gSerialize(buf, x) evaluates internal::gSizedObj(x) (Serialize.h:759,445)
  if (t.ser_ovl && t.deser_ovl && !t.sized_ovl)
    fail("gSerialize(" + std::string(t.family) + "):does-not-compile",
         "internal::gSerializeObj and gDeserializeObj overloads exist for %s "
         "but there is no internal::gSizedObj overload, and the public "
         "gSerialize(buf, x) calls gSized(x): it cannot be instantiated",
         t.name);
  if (t.public_ser && !(t.ser_ovl && t.sized_ovl))
    fail("harness:public_ser-flag-wrong", "%s", t.name);
}

// ---------------------------------------------------------------------------
// E6: compile probes
// ---------------------------------------------------------------------------
// E4 can only see whether an overload is *declared*.  Whether
// gSerialize(buf, x) / gSized(x) can be *instantiated* is decided here by
// running the compiler (the one and the flags vlib/build.py uses, syntax
// only) on two four-line translation units per type, against
// the tree named by $VERIF_REPO (default /repo, as in build.py).
//   HDR  internal::gSerializeObj(buf, x) and gDeserialize(buf, x)
//   PUB  gSerialize(buf, x) and gSized(x)
// Oracle: a type the header can write and read (HDR compiles) can be written
// and sized through the documented entry points (PUB compiles).  Types that
// fail HDR are unsupported, not defects.
// gSizedObj(std::pair) (Serialize.h:317) is declared before the string /
// vector / PODResizeableArray / gdeque overloads it would have to call
#define PAIR_FAMILY "std::pair<T1,T2>-with-string-or-container-member"
struct Probe {
  const char* type;
  const char* family; // violation key component
};
static const Probe PROBES[] = {
    {"uint32_t", "scalar"}, // control: all four must compile
    {"std::deque<int>", "std::deque<T>"},
    {"galois::CopyableAtomic<int>", "galois::CopyableAtomic<T>"},
    {"galois::Pair<int,std::string>",
     "galois::Pair<T1,T2>-with-non-memory-copyable-member"},
    {"std::pair<int,double>", "std::pair<scalar,scalar>"},
    {"std::pair<int,std::pair<int,double>>", "std::pair<scalar,pair>"},
    {"std::pair<int,std::string>", PAIR_FAMILY},
    {"std::pair<std::string,int>", PAIR_FAMILY},
    {"std::pair<int,std::vector<int>>", PAIR_FAMILY},
    {"std::pair<std::string,std::vector<int>>",
     PAIR_FAMILY},
    {"std::pair<int,galois::PODResizeableArray<int>>",
     PAIR_FAMILY},
    {"std::pair<int,galois::gdeque<int>>",
     PAIR_FAMILY},
    {"std::pair<int,galois::DynamicBitSet>", "std::pair<scalar,DynamicBitSet>"},
    {"std::vector<std::pair<int,std::string>>", "std::vector<pair>"},
    {"std::vector<std::vector<std::string>>", "std::vector<vector>"},
    {"std::vector<std::deque<int>>", "std::vector<deque>"}, // unsupported
    {"std::vector<bool>", "std::vector<bool>"},             // unsupported
    {"std::tuple<int,double>", "std::tuple"},               // read only
};
static const int NPROBES = sizeof PROBES / sizeof PROBES[0];
// All probes are compiled on first use, 16 compilers at a time, two
// translation units per type: HDR (the two header-level operations) and PUB
// (the two documented entry points).
struct ProbeTable {
  bool env = false;            // the control compiled
  bool hdr[64], pub[64];       // per probe
  std::string hdr_err[64], pub_err[64];
};
static std::string first_error(const std::string& path) {
  std::string e;
  FILE* f = fopen(path.c_str(), "r");
  char line[600];
  while (f && fgets(line, sizeof line, f))
    if (strstr(line, "error")) {
      e = line;
      break;
    }
  if (f)
    fclose(f);
  for (auto& ch : e)
    if (ch == '\n')
      ch = ' ';
  return e;
}
static const ProbeTable& probe_table() {
  static const ProbeTable T = [] {
    ProbeTable t;
    const char* repo = getenv("VERIF_REPO");
    std::string R    = repo ? repo : "/repo";
    std::string base =
        "/verif/build/tmp/c17-probe-" + std::to_string(getpid()) + "-";
    std::string inc[4] = {"-I/verif/build/gen/include",
                          "-I" + R + "/libgalois/include",
                          "-I" + R + "/libsupport/include",
                          "-I" + R + "/libdist/include"};
    for (int i = 0; i < NPROBES; ++i) {
      FILE* f = fopen((base + std::to_string(i) + ".cpp").c_str(), "w");
      if (!f)
        return t;
      fprintf(f,
              "#include \"galois/runtime/Serialize.h\"\n"
              "using namespace galois::runtime;\nusing T = %s;\n"
              "#ifdef HDR\n"
              "void f(SerializeBuffer& b, const T& x) { "
              "internal::gSerializeObj(b, x); }\n"
              "void f(DeSerializeBuffer& b, T& x) { gDeserialize(b, x); }\n"
              "#endif\n#ifdef PUB\n"
              "void f(SerializeBuffer& b, const T& x) { gSerialize(b, x); }\n"
              "size_t f(const T& x) { return gSized(x); }\n#endif\n",
              PROBES[i].type);
      fclose(f);
    }
    const int NJ = 2 * NPROBES;
    std::vector<pid_t> pid(NJ, 0);
    std::vector<int> status(NJ, -1);
    int next = 0, running = 0, done = 0;
    auto outp = [&](int j) {
      return base + std::to_string(j / 2) + (j % 2 ? ".pub.err" : ".hdr.err");
    };
    while (done < NJ) {
      while (running < 16 && next < NJ) {
        int j           = next++;
        std::string src = base + std::to_string(j / 2) + ".cpp";
        std::string out = outp(j);
        pid[j]          = fork();
        if (pid[j] == 0) {
          int fd = open(out.c_str(), O_WRONLY | O_CREAT | O_TRUNC, 0644);
          if (fd >= 0) {
            dup2(fd, 1);
            dup2(fd, 2);
            close(fd);
          }
          execlp("g++", "g++", "-std=c++17", "-DGALOIS_USE_SCHED_SETAFFINITY",
                 "-DGALOIS_HAVE_PTHREAD", "-w", "-fsyntax-only",
                 j % 2 ? "-DPUB" : "-DHDR", inc[0].c_str(), inc[1].c_str(),
                 inc[2].c_str(), inc[3].c_str(), src.c_str(), (char*)nullptr);
          _exit(127);
        }
        if (pid[j] < 0) {
          ++done;
          continue;
        }
        ++running;
      }
      int st;
      pid_t p = waitpid(-1, &st, 0);
      if (p < 0)
        break;
      for (int j = 0; j < NJ; ++j)
        if (pid[j] == p) {
          status[j] = st;
          --running;
          ++done;
        }
    }
    for (int j = 0; j < NJ; ++j) {
      bool ok = status[j] != -1 && WIFEXITED(status[j]) &&
                WEXITSTATUS(status[j]) == 0;
      std::string e = ok ? "" : first_error(outp(j));
      (j % 2 ? t.pub : t.hdr)[j / 2]         = ok;
      (j % 2 ? t.pub_err : t.hdr_err)[j / 2] = e;
      unlink(outp(j).c_str());
      if (j % 2)
        unlink((base + std::to_string(j / 2) + ".cpp").c_str());
    }
    t.env = t.hdr[0] && t.pub[0]; // PROBES[0] is the control
    if (!t.env)
      fprintf(stderr,
              "c17: compile probes unavailable (control does not compile: %s "
              "%s) - the case is vacuous\n",
              t.hdr_err[0].c_str(), t.pub_err[0].c_str());
    return t;
  }();
  return T;
}

static void probe_case(uint64_t idx, bool) {
  const ProbeTable& t = probe_table();
  if (!t.env)
    return; // no compiler / no tree: cannot decide, say nothing
  const Probe& p = PROBES[idx];
  outcome18(t.hdr[idx] + 2 * t.pub[idx]);
  if (t.hdr[idx])
    sx::mark_nontrivial(); // the header can write and read the type
  if (t.hdr[idx] && !t.pub[idx])
    fail("gSerialize(" + std::string(p.family) + "):does-not-compile",
         "%s: internal::gSerializeObj(buf,x) and gDeserialize(buf,x) compile, "
         "gSerialize(buf,x) / gSized(x) DO NOT: %s",
         p.type, t.pub_err[idx].c_str());
}

// ---------------------------------------------------------------------------
// E5: read into an object that already holds a value
// ---------------------------------------------------------------------------
// Composite targets with a std::string member read through the library
// (galois::Pair<int,string>, std::tuple<..,string>, std::pair<string,..>) are
// left out: they would
// only repeat the std::string result under a second key.
struct ReuseInput {
  int pad, type, oldv, newv;
};
static std::vector<int>& reuse_types() {
  static std::vector<int> v = [] {
    std::vector<int> r;
    for (size_t t = 0; t < types().size(); ++t) {
      std::string n = types()[t].name;
      if (n == TD<GPairIS>::name() || n == TD<TupIDS>::name() ||
          n == TD<PairSV>::name())
        continue;
      r.push_back((int)t);
    }
    return r;
  }();
  return v;
}
static uint64_t reuse_count(bool) {
  uint64_t n = 0;
  for (int t : reuse_types())
    n += (uint64_t)types()[t].nvals * types()[t].nvals;
  return n * NPAD;
}
static ReuseInput reuse_decode(uint64_t idx) {
  ReuseInput in;
  in.pad = idx % NPAD;
  idx /= NPAD;
  for (int t : reuse_types()) {
    uint64_t k = (uint64_t)types()[t].nvals * types()[t].nvals;
    if (idx < k) {
      in.type = t;
      in.oldv = idx % types()[t].nvals;
      in.newv = idx / types()[t].nvals;
      return in;
    }
    idx -= k;
  }
  abort();
}
static void reuse_case(uint64_t idx, bool) {
  rt();
  Watchdog wd;
  ReuseInput in    = reuse_decode(idx);
  const TypeOps& t = types()[in.type];
  Sym snew{in.type, in.newv};
  SendBuffer buf;
  put_pad(buf, in.pad);
  t.ser(buf, source(snew));
  size_t total = buf.size();
  RecvBuffer r(std::move(buf));
  get_pad(r, in.pad);
  Target tg(t);
  t.make(in.oldv, tg.p);
  t.prep(in.newv, tg.p);
  t.deser(r, tg.p);
  outcome18(sx::mix(in.type, in.newv));
  if (in.oldv != in.newv)
    sx::mark_nontrivial();
  if (!t.eq(source(snew), tg.p))
    fail_once(std::string(t.name) + ":deserialize-into-nonempty-target-wrong",
              std::string(t.name) + ": target held value #" +
                  std::to_string(in.oldv) + ", buffer holds value #" +
                  std::to_string(in.newv) +
                  "; after gDeserialize the target does not equal the "
                  "serialised value");
  check_end(r, total);
}

// ---------------------------------------------------------------------------
// B1: buffer operations
// ---------------------------------------------------------------------------
enum BufOp {
  B_PUSH,
  B_INSERT0,
  B_INSERT3,
  B_INSERT9,
  B_RESERVE,
  B_LAZY, // off = encomber(2); insertAt(data, 2, off)  (gSerializeLazy)
  B_SHRINK,
  B_MOVE_CTOR_S,
  B_TO_RECV_MOVE,  // D = RecvBuffer(std::move(S))
  B_TO_RECV_SWAP,  // D = RecvBuffer(S.getVec())       (swap constructor)
  B_TO_RECV_START, // D = RecvBuffer(std::move(S.getVec()), min(2,size))
  B_TO_RECV_COPY,  // D = RecvBuffer(S.begin(), S.end())
  B_TO_RECV_FILL,  // D.reset(n); memcpy(D.linearData(), S.linearData(), n)
  B_POP,
  B_EXTRACT4,
  B_EXTRACT0,
  B_REWIND, // setOffset(offset / 2)
  B_POP_BACK,
  B_MOVE_CTOR_D,
  B_MOVE_ASSIGN_D,
  B_APPEND_REST, // gSerialize(S, D): unread part of D appended to S
  B_CHAR_CTOR,   // S = SerializeBuffer((const char*)D.r_linearData(), r_size)
  B_RAW,         // gDeserializeRaw(S.begin(), uint32_t&)
  B_NOPS
};
static const char* BUFOP_NAME[B_NOPS] = {
    "S.push(c)",
    "S.insert(p,0)",
    "S.insert(p,3)",
    "S.insert(p,9)",
    "S.reserve(16)",
    "o=S.encomber(2);S.insertAt(p,2,o)",
    "S.resize(size/2)",
    "S=SendBuffer(move(S))",
    "D=RecvBuffer(move(S))",
    "D=RecvBuffer(S.getVec())",
    "D=RecvBuffer(move(S.getVec()),min(2,size))",
    "D=RecvBuffer(S.begin(),S.end())",
    "D.reset(S.size());memcpy(D.linearData(),S)",
    "D.pop()",
    "D.extract(4)",
    "D.extract(0)",
    "D.setOffset(off/2)",
    "D.pop_back(1)",
    "D=RecvBuffer(move(D))",
    "D=move(D2=move(D))",
    "gSerialize(S,D)",
    "S=SendBuffer((char*)D.r_linearData(),D.r_size())",
    "gDeserializeRaw(S.begin(),u32)",
};

static std::string bufops_run(const std::vector<int>& h) {
  Watchdog wd;
  std::unique_ptr<SendBuffer> S(new SendBuffer());
  std::unique_ptr<RecvBuffer> D(new RecvBuffer());
  std::vector<uint8_t> ms, md; // models
  size_t moff    = 0;
  bool transfer  = false, read = false;
  const char* at = "init";
  auto gen       = [&](size_t n) {
    std::vector<uint8_t> d(n);
    for (size_t i = 0; i < n; ++i)
      d[i] = (uint8_t)(ms.size() * 7 + md.size() * 3 + moff + i * 11 + 1);
    return d;
  };
  auto check = [&]() {
    if (S->size() != ms.size())
      fail("SerializeBuffer:size", "after %s: size %zu, model %zu", at,
           (size_t)S->size(), ms.size());
    if ((size_t)(S->end() - S->begin()) != ms.size())
      fail("SerializeBuffer:iterators", "after %s: end-begin %zd, model %zu",
           at, S->end() - S->begin(), ms.size());
    if (!std::equal(ms.begin(), ms.end(), S->begin()) ||
        (ms.size() && memcmp(S->linearData(), ms.data(), ms.size())))
      fail("SerializeBuffer:content", "after %s: %s, model %s", at,
           hex(S->linearData(), S->size()).c_str(),
           hex(ms.data(), ms.size()).c_str());
    if (D->size() != md.size() || D->empty() != md.empty() ||
        D->getVec().size() != md.size())
      fail("DeSerializeBuffer:size", "after %s: size %u empty %d, model %zu",
           at, D->size(), (int)D->empty(), md.size());
    if (D->getOffset() != moff)
      fail("DeSerializeBuffer:offset", "after %s: offset %u, model %zu", at,
           D->getOffset(), moff);
    if (D->r_size() != md.size() - moff)
      fail("DeSerializeBuffer:r_size", "after %s: r_size %zu, model %zu", at,
           D->r_size(), md.size() - moff);
    if (md.size() && memcmp(D->linearData(), md.data(), md.size()))
      fail("DeSerializeBuffer:content", "after %s: %s, model %s", at,
           hex((const uint8_t*)D->linearData(), md.size()).c_str(),
           hex(md.data(), md.size()).c_str());
    if (md.size() > moff &&
        (D->r_linearData() != (const uint8_t*)D->linearData() + moff ||
         !D->atAlignment(1)))
      fail("DeSerializeBuffer:r_linearData", "after %s", at);
  };
  check();
  for (int op : h) {
    at = BUFOP_NAME[op];
    switch (op) {
    case B_PUSH: {
      auto d = gen(1);
      S->push((char)d[0]);
      ms.push_back(d[0]);
      break;
    }
    case B_INSERT0:
    case B_INSERT3:
    case B_INSERT9: {
      auto d = gen(op == B_INSERT0 ? 0 : op == B_INSERT3 ? 3 : 9);
      uint8_t dummy = 0;
      S->insert(d.empty() ? &dummy : d.data(), d.size());
      ms.insert(ms.end(), d.begin(), d.end());
      break;
    }
    case B_RESERVE:
      S->reserve(16);
      break;
    case B_LAZY: {
      auto d     = gen(2);
      size_t off = S->encomber(2);
      if (off != ms.size())
        fail("SerializeBuffer:encomber-return", "returned %zu, size was %zu",
             off, ms.size());
      S->insertAt(d.data(), 2, off);
      ms.insert(ms.end(), d.begin(), d.end());
      break;
    }
    case B_SHRINK:
      S->resize(ms.size() / 2);
      ms.resize(ms.size() / 2);
      break;
    case B_MOVE_CTOR_S: {
      std::unique_ptr<SendBuffer> n(new SendBuffer(std::move(*S)));
      S = std::move(n);
      break;
    }
    case B_TO_RECV_MOVE:
      D.reset(new RecvBuffer(std::move(*S)));
      md = ms;
      ms.clear();
      moff     = 0;
      transfer = true;
      break;
    case B_TO_RECV_SWAP:
      D.reset(new RecvBuffer(S->getVec()));
      md = ms;
      ms.clear();
      moff     = 0;
      transfer = true;
      break;
    case B_TO_RECV_START: {
      size_t st = std::min<size_t>(2, ms.size());
      D.reset(new RecvBuffer(std::move(S->getVec()), (uint32_t)st));
      md = ms;
      ms.clear();
      moff     = st;
      transfer = true;
      break;
    }
    case B_TO_RECV_COPY:
      D.reset(new RecvBuffer(S->begin(), S->end()));
      md       = ms;
      moff     = 0;
      transfer = true;
      break;
    case B_TO_RECV_FILL:
      D->reset((int)ms.size());
      if (ms.size())
        memcpy(D->linearData(), S->linearData(), ms.size());
      md       = ms;
      moff     = 0;
      transfer = true;
      break;
    case B_POP:
      if (moff < md.size()) {
        unsigned char c = D->pop();
        if (c != md[moff])
          fail("DeSerializeBuffer:pop-value", "got %02x, model %02x", c,
               md[moff]);
        ++moff;
        read = true;
      }
      break;
    case B_EXTRACT4:
      if (md.size() - moff >= 4) {
        uint8_t got[4];
        D->extract(got, 4);
        if (memcmp(got, &md[moff], 4))
          fail("DeSerializeBuffer:extract-value", "got %s, model %s",
               hex(got, 4).c_str(), hex(&md[moff], 4).c_str());
        moff += 4;
        read = true;
      }
      break;
    case B_EXTRACT0: {
      uint8_t got = 0;
      D->extract(&got, 0);
      break;
    }
    case B_REWIND:
      D->setOffset((unsigned)(moff / 2));
      moff /= 2;
      break;
    case B_POP_BACK:
      if (md.size() > moff) {
        D->pop_back(1);
        md.pop_back();
      }
      break;
    case B_MOVE_CTOR_D: {
      std::unique_ptr<RecvBuffer> n(new RecvBuffer(std::move(*D)));
      D = std::move(n);
      break;
    }
    case B_MOVE_ASSIGN_D: {
      RecvBuffer tmp(std::move(*D));
      std::unique_ptr<RecvBuffer> n(new RecvBuffer(3)); // 3 undefined bytes
      *n = std::move(tmp);
      D  = std::move(n);
      break;
    }
    case B_APPEND_REST: {
      size_t want = gr::gSized(*D);
      if (want != md.size() - moff)
        fail("gSized(DeSerializeBuffer):!=r_size", "%zu vs %zu", want,
             md.size() - moff);
      gr::gSerialize(*S, *D);
      ms.insert(ms.end(), md.begin() + moff, md.end());
      break;
    }
    case B_CHAR_CTOR: {
      static const char none = 0;
      const char* p = md.size() > moff ? (const char*)D->r_linearData() : &none;
      S.reset(new SendBuffer(p, (unsigned)(md.size() - moff)));
      ms.assign(md.begin() + moff, md.end());
      break;
    }
    case B_RAW:
      if (ms.size() >= 4) {
        uint32_t got = 0, want;
        auto it      = gr::gDeserializeRaw(S->begin(), got);
        memcpy(&want, ms.data(), 4);
        if (got != want || it != S->begin() + 4)
          fail("gDeserializeRaw:wrong", "got %08x want %08x advanced %zd", got,
               want, it - S->begin());
      }
      break;
    }
    check();
  }
  if (transfer && read)
    sx::mark_nontrivial();
  std::string key = hex(ms.data(), ms.size(), 1000) + "|" +
                    hex(md.data(), md.size(), 1000) + "|" +
                    std::to_string(moff);
  outcome18(sx::hash_str(key));
  return key;
}

// ---------------------------------------------------------------------------
int main(int argc, char** argv) {
  if (S100.size() != 100)
    abort();
  std::vector<sx::BfsCase> bfs;
  std::vector<sx::EnumCase> en;
  {
    sx::BfsCase c;
    c.name   = "buffer-ops SerializeBuffer/DeSerializeBuffer vs byte vectors";
    c.nops   = B_NOPS;
    c.opname = [](int i) { return std::string(BUFOP_NAME[i]); };
    c.run    = bufops_run;
    c.quick_depth    = 6;
    c.thorough_depth = 8;
    bfs.push_back(c);
  }
  {
    sx::EnumCase c;
    c.name = "entry-points: size/write/read overloads per type";
    c.count = [](bool) { return (uint64_t)types().size(); };
    c.run   = entry_case;
    c.describe = [](uint64_t idx, bool) {
      return std::string(types()[idx].name);
    };
    // Outside C17's statement (which is about round-trip equality and the
    // bytes consumed): gSized() is only a reservation hint and entry points
    // that do not instantiate cannot be exercised.  Opt-in diagnostics.
    if (getenv("VERIF_EXTRA_PROBES"))
      en.push_back(c);
  }
  {
    sx::EnumCase c;
    c.name  = "compile-probes: public entry points instantiate per type";
    c.count = [](bool) { return (uint64_t)NPROBES; };
    c.run   = probe_case;
    c.describe = [](uint64_t idx, bool) {
      return std::string(PROBES[idx].type);
    };
    // Outside C17's statement (which is about round-trip equality and the
    // bytes consumed): gSized() is only a reservation hint and entry points
    // that do not instantiate cannot be exercised.  Opt-in diagnostics.
    if (getenv("VERIF_EXTRA_PROBES"))
      en.push_back(c);
  }
  {
    sx::EnumCase c;
    c.name  = "gSized-vs-bytes every value x pad 0..7";
    c.count = [](bool) { return (uint64_t)syms().size() * NPAD; };
    c.run   = sized_case;
    c.describe = [](uint64_t idx, bool) {
      return "pad=" + std::to_string(idx % NPAD) + "; " +
             sym_name(syms()[idx / NPAD]);
    };
    // Outside C17's statement (which is about round-trip equality and the
    // bytes consumed): gSized() is only a reservation hint and entry points
    // that do not instantiate cannot be exercised.  Opt-in diagnostics.
    if (getenv("VERIF_EXTRA_PROBES"))
      en.push_back(c);
  }
  {
    sx::EnumCase c;
    c.name     = "reuse-target: gDeserialize into an object holding a value";
    c.count    = reuse_count;
    c.run      = reuse_case;
    c.describe = [](uint64_t idx, bool) {
      ReuseInput in = reuse_decode(idx);
      return "pad=" + std::to_string(in.pad) + "; " + types()[in.type].name +
             " old=#" + std::to_string(in.oldv) + " new=#" +
             std::to_string(in.newv);
    };
    en.push_back(c);
  }
  {
    sx::EnumCase c;
    c.name  = "roundtrip/variadic one gSized+gSerialize+gDeserialize call";
    c.count = [](bool th) {
      return th ? var_space().total : var_space().total_quick;
    };
    c.run      = var_case;
    c.describe = [](uint64_t idx, bool) {
      SeqInput in;
      var_decode(idx, in);
      return "variadic " + in.str();
    };
    c.weight = 2;
    en.push_back(c);
  }
  {
    sx::EnumCase c;
    c.name     = "roundtrip/seq all sequences x pad 0..7, one call per value";
    c.count    = seq_count;
    c.run      = seq_case;
    c.describe = [](uint64_t idx, bool) { return seq_decode(idx).str(); };
    c.weight   = 8;
    en.push_back(c);
  }
  return sx::sx_main(argc, argv, "C17", bfs, en);
}

// C15 (concurrent half): atomic helpers, concurrent bitset bits of one word,
// concurrent union-find, insert bag filled concurrently -- the result equals
// what the same operations produce sequentially.  Engine E1 (gsched).
// DESIGN.md 7/C15 (E1 bullet).
#include "gsched.h"

#include "galois/AtomicHelpers.h"
#include "galois/Bag.h"
#include "galois/DynamicBitset.h"
#include "galois/Galois.h"
#include "galois/Reduction.h"
#include "galois/UnionFind.h"

#include <algorithm>
#include <atomic>
#include <set>
#include <string>
#include <vector>

static std::string g_tag;

struct Setup {
  galois::SharedMemSys G;
  Setup(std::vector<int> topo, unsigned T, const std::string& tag) {
    g_tag = tag;
    vf_tag(tag.c_str());
    galois::setActiveThreads(T);
  }
};
static void topo_first(std::vector<int> topo) {
  vf_set_topology(topo.data(), (int)topo.size());
}

// ---- atomicMin / atomicMax / atomicAdd: commutative => unique result -------
static void atomics_case(std::vector<int> topo,
                         std::vector<std::vector<int>> vals) {
  topo_first(topo);
  Setup S(topo, vals.size(), "atomic-helpers");
  static std::atomic<int> mn, mx, sum;
  static std::atomic<unsigned> usum;
  mn = 100;
  mx = -100;
  sum  = 0;
  usum = 5;
  vf_window_begin();
  galois::on_each([&](unsigned tid, unsigned) {
    for (int v : vals[tid]) {
      galois::atomicMin(mn, v);
      galois::atomicMax(mx, v);
      galois::atomicAdd(sum, v);
      galois::atomicSubtract(usum, (unsigned)1);
    }
  });
  vf_window_end();
  int emn = 100, emx = -100, es = 0;
  unsigned eu = 5;
  for (auto& l : vals)
    for (int v : l) {
      emn = std::min(emn, v);
      emx = std::max(emx, v);
      es += v;
      eu -= 1;
    }
  if (mn != emn)
    vf_fail("atomicMin:lost-update", "min is %d, sequential gives %d",
            mn.load(), emn);
  if (mx != emx)
    vf_fail("atomicMax:lost-update", "max is %d, sequential gives %d",
            mx.load(), emx);
  if (sum != es)
    vf_fail("atomicAdd:lost-update", "sum is %d, sequential gives %d",
            sum.load(), es);
  if (usum != eu)
    vf_fail("atomicSubtract:lost-update", "value is %u, sequential gives %u",
            usum.load(), eu);
  vf_finish();
}

// ---- DynamicBitSet: concurrent set / reset of bits in the same word --------
struct BitOp {
  bool set;
  int bit;
};
static void bitset_case(std::vector<int> topo,
                        std::vector<std::vector<BitOp>> ops) {
  topo_first(topo);
  Setup S(topo, ops.size(), "DynamicBitSet");
  static galois::DynamicBitSet bs;
  bs.resize(70);
  bs.reset();
  bs.set(3); // pre-set so that a reset has something to clear
  bs.set(65);
  int changed[8][8];
  vf_window_begin();
  galois::on_each([&](unsigned tid, unsigned) {
    int k = 0;
    for (auto& o : ops[tid])
      changed[tid][k++] = o.set ? bs.set(o.bit) : bs.reset(o.bit);
  });
  vf_window_end();
  // every thread touches its OWN bits (disjoint bits, same words): the final
  // contents are the sequential result whatever the order
  std::vector<bool> ref(70, false);
  ref[3] = ref[65] = true;
  for (auto& l : ops)
    for (auto& o : l)
      ref[o.bit] = o.set;
  for (int i = 0; i < 70; ++i)
    if (bs.test(i) != ref[i])
      vf_fail("DynamicBitSet:concurrent-bit-lost",
              "bit %d is %d, sequential gives %d", i, (int)bs.test(i),
              (int)ref[i]);
  size_t cnt = 0;
  for (bool b : ref)
    cnt += b;
  if (bs.count() != cnt)
    vf_fail("DynamicBitSet:count-wrong", "count %zu vs %zu", (size_t)bs.count(),
            cnt);
  vf_finish();
}

// ---- UnionFind: concurrent merges / finds -----------------------------------
struct UF : public galois::UnionFindNode<UF> {
  int id;
  UF() : galois::UnionFindNode<UF>(const_cast<UF*>(this)), id(0) {}
};
struct UfOp {
  int a, b; // merge(a,b); b<0: findAndCompress(a)
};
static void uf_case(std::vector<int> topo, std::vector<std::vector<UfOp>> ops) {
  topo_first(topo);
  Setup S(topo, ops.size(), "UnionFind");
  static UF n[4];
  for (int i = 0; i < 4; ++i)
    n[i].id = i;
  vf_window_begin();
  galois::on_each([&](unsigned tid, unsigned) {
    for (auto& o : ops[tid]) {
      if (o.b >= 0)
        n[o.a].merge(&n[o.b]);
      else
        n[o.a].findAndCompress();
    }
  });
  vf_window_end();
  // reference partition: merges are commutative/associative on partitions
  int rep[4] = {0, 1, 2, 3};
  auto find  = [&](int x) {
    while (rep[x] != x)
      x = rep[x];
    return x;
  };
  for (auto& l : ops)
    for (auto& o : l)
      if (o.b >= 0) {
        int a = find(o.a), b = find(o.b);
        if (a != b)
          rep[a] = b;
      }
  for (int i = 0; i < 4; ++i)
    for (int j = 0; j < 4; ++j) {
      bool same = n[i].find() == n[j].find();
      bool want = find(i) == find(j);
      if (same != want)
        vf_fail(same ? "UnionFind:spurious-union" : "UnionFind:lost-union",
                "elements %d and %d: same set = %d, sequential gives %d", i, j,
                (int)same, (int)want);
    }
  for (int i = 0; i < 4; ++i) {
    UF* r = n[i].find();
    if (r < &n[0] || r > &n[3] || r->find() != r)
      vf_fail("UnionFind:bad-representative", "element %d", i);
  }
  vf_finish();
}

// ---- InsertBag: concurrent push, serial read ---------------------------------
static void bag_case(std::vector<int> topo, std::vector<std::vector<int>> vals) {
  topo_first(topo);
  Setup S(topo, vals.size(), "InsertBag");
  galois::InsertBag<int>* bag = new galois::InsertBag<int>();
  vf_window_begin();
  galois::on_each([&](unsigned tid, unsigned) {
    for (int v : vals[tid])
      bag->push(v);
  });
  vf_window_end();
  std::multiset<int> got(bag->begin(), bag->end()), want;
  for (auto& l : vals)
    for (int v : l)
      want.insert(v);
  if (got != want)
    vf_fail("InsertBag:contents-differ",
            "bag holds %zu elements, %zu were pushed (multisets differ)",
            got.size(), want.size());
  vf_finish();
}

// ---- reducers updated from real threads under the scheduler -----------------
static void reducer_case(std::vector<int> topo,
                         std::vector<std::vector<int>> vals) {
  topo_first(topo);
  Setup S(topo, vals.size(), "reducers");
  galois::GAccumulator<int> acc;
  galois::GReduceMax<int> mx;
  galois::GReduceMin<int> mn;
  vf_window_begin();
  galois::on_each([&](unsigned tid, unsigned) {
    for (int v : vals[tid]) {
      acc += v;
      mx.update(v);
      mn.update(v);
    }
  });
  int a = acc.reduce(), x = mx.reduce(), m = mn.reduce();
  vf_window_end();
  int es = 0, ex = std::numeric_limits<int>::lowest(),
      em = std::numeric_limits<int>::max();
  for (auto& l : vals)
    for (int v : l) {
      es += v;
      ex = std::max(ex, v);
      em = std::min(em, v);
    }
  if (a != es || x != ex || m != em)
    vf_fail("reducers:wrong-result", "sum %d/%d max %d/%d min %d/%d", a, es, x,
            ex, m, em);
  vf_finish();
}

int main(int argc, char** argv) {
  std::vector<VfCase> cases;
  auto add = [&](std::string name, int qb, int tb, std::function<void()> body,
                 int w = 1) {
    VfCase c;
    c.name           = name;
    c.quick_bound    = qb;
    c.thorough_bound = tb;
    c.body           = body;
    c.weight         = w;
    cases.push_back(c);
  };
  typedef std::vector<std::vector<int>> VV;
  add("atomics T=2 {3,-2}/{-5,7}", 2, 4,
      [] { atomics_case({2}, VV{{3, -2}, {-5, 7}}); }, 2);
  add("atomics T=3 {1}/{-1}/{4}", 1, 3,
      [] { atomics_case({2, 1}, VV{{1}, {-1}, {4}}); }, 2);
  add("atomics T=2 equal values", 2, 4,
      [] { atomics_case({1, 1}, VV{{2, 2}, {2}}); });
  typedef std::vector<std::vector<BitOp>> BV;
  add("bitset T=2 same word", 3, 5, [] {
    bitset_case({2}, BV{{{true, 1}, {false, 3}}, {{true, 2}, {true, 63}}});
  }, 2);
  add("bitset T=3 two words", 2, 3, [] {
    bitset_case({3}, BV{{{true, 0}}, {{false, 65}, {true, 64}}, {{true, 66}}});
  }, 2);
  typedef std::vector<std::vector<UfOp>> UV;
  add("unionfind T=2 chain", 2, 4,
      [] { uf_case({2}, UV{{{0, 1}, {2, 3}}, {{1, 2}, {0, -1}}}); }, 2);
  add("unionfind T=2 same pair", 2, 4,
      [] { uf_case({1, 1}, UV{{{0, 1}, {3, -1}}, {{1, 0}, {2, 3}}}); }, 2);
  add("unionfind T=3", 1, 3,
      [] { uf_case({3}, UV{{{0, 3}}, {{3, 1}}, {{1, 2}, {0, -1}}}); }, 2);
  add("insertbag T=2", 1, 2, [] { bag_case({2}, VV{{1, 2}, {2, 3}}); });
  add("insertbag T=3 two sockets", 1, 1,
      [] { bag_case({2, 1}, VV{{1}, {2, 2}, {3}}); });
  add("reducers T=2", 1, 2, [] { reducer_case({2}, VV{{1, -4}, {7}}); });
  add("reducers T=3", 1, 1, [] { reducer_case({2, 1}, VV{{1}, {-4}, {7}}); });
  return vf_main(argc, argv, "C15", cases);
}

// C16 (schedule half): ParallelSTL partition / sort / find_if / count_if /
// accumulate / map_reduce / partial_sum under the schedule explorer.
// Engine E1 (gsched).  DESIGN.md 7/C16 (E1 bullet).
#include "gsched.h"

#include "galois/Galois.h"
#include "galois/ParallelSTL.h"

#include <algorithm>
#include <numeric>
#include <string>
#include <vector>

static std::string g_tag;

// one 1024-element block per letter: T all-true, F all-false, A alternating,
// S sorted ascending keys, R reversed; predicate: value < 1000
static std::vector<int> build(const std::string& blocks, int extra) {
  std::vector<int> v;
  int k = 0;
  for (char c : blocks)
    for (int i = 0; i < 1024; ++i, ++k) {
      switch (c) {
      case 'T': v.push_back(k % 997); break;
      case 'F': v.push_back(1000 + k % 997); break;
      case 'A': v.push_back((i & 1) ? 1000 + i : i % 900); break;
      case 'S': v.push_back(i * 2); break;
      default: v.push_back(2047 - i * 2); break;
      }
    }
  for (int i = 0; i < extra; ++i)
    v.push_back((i & 1) ? 5 : 1500);
  return v;
}
static bool pred(int x) { return x < 1000; }

static void setup(std::vector<int> topo, unsigned T, std::string tag) {
  vf_set_topology(topo.data(), (int)topo.size());
  g_tag = tag;
  vf_tag(tag.c_str());
}

static void partition_case(std::vector<int> topo, unsigned T,
                           std::string blocks, int extra) {
  setup(topo, T, "pstl:partition");
  galois::SharedMemSys G;
  galois::setActiveThreads(T);
  std::vector<int> v = build(blocks, extra), orig = v;
  vf_window_begin();
  auto it = galois::ParallelSTL::partition(v.begin(), v.end(), pred);
  vf_window_end();
  size_t p = it - v.begin();
  if (p > v.size())
    vf_fail("pstl:partition:point-out-of-range", "returned offset %zu of %zu", p,
            v.size());
  for (size_t i = 0; i < v.size(); ++i)
    if (pred(v[i]) != (i < p))
      vf_fail("pstl:partition:not-a-partition-point",
              "blocks %s+%d, %u threads: returned point %zu but element %zu "
              "(%d) is on the wrong side",
              blocks.c_str(), extra, T, p, i, v[i]);
  std::vector<int> a = v, b = orig;
  std::sort(a.begin(), a.end());
  std::sort(b.begin(), b.end());
  if (a != b)
    vf_fail("pstl:partition:not-a-permutation", "blocks %s+%d", blocks.c_str(),
            extra);
  vf_outcome(p);
  vf_finish();
}

static void sort_case(std::vector<int> topo, unsigned T, std::string blocks,
                      int extra) {
  setup(topo, T, "pstl:sort");
  galois::SharedMemSys G;
  galois::setActiveThreads(T);
  std::vector<int> v = build(blocks, extra), ref = v;
  std::sort(ref.begin(), ref.end());
  vf_window_begin();
  galois::ParallelSTL::sort(v.begin(), v.end());
  vf_window_end();
  if (v != ref)
    vf_fail("pstl:sort:wrong-result", "blocks %s+%d with %u threads",
            blocks.c_str(), extra, T);
  vf_finish();
}

static void find_case(std::vector<int> topo, unsigned T, int n,
                      std::vector<int> hits) {
  setup(topo, T, "pstl:find_if");
  galois::SharedMemSys G;
  galois::setActiveThreads(T);
  std::vector<int> v(n, 7);
  for (int h : hits)
    v[h] = 42;
  vf_window_begin();
  auto it = galois::ParallelSTL::find_if(v.begin(), v.end(),
                                         [](int x) { return x == 42; });
  vf_window_end();
  if (hits.empty()) {
    if (it != v.end())
      vf_fail("pstl:find_if:spurious-match", "returned offset %ld",
              (long)(it - v.begin()));
  } else if (it == v.end() || *it != 42) {
    vf_fail("pstl:find_if:match-not-returned",
            "n=%d with %zu matching elements (first at %d): returned %s", n,
            hits.size(), hits[0], it == v.end() ? "last" : "a non-matching element");
  }
  vf_outcome(it - v.begin());
  vf_finish();
}

static void reduce_case(std::vector<int> topo, unsigned T, int n) {
  setup(topo, T, "pstl:reductions");
  galois::SharedMemSys G;
  galois::setActiveThreads(T);
  std::vector<long> v(n);
  for (int i = 0; i < n; ++i)
    v[i] = (i * 37) % 11 - 3;
  vf_window_begin();
  size_t c = galois::ParallelSTL::count_if(v.begin(), v.end(),
                                           [](long x) { return x > 0; });
  long s   = galois::ParallelSTL::accumulate(v.begin(), v.end(), 0L,
                                           std::plus<long>());
  long m   = galois::ParallelSTL::map_reduce(
      v.begin(), v.end(), [](long x) { return x * x; },
      [](long a, long b) { return a + b; }, 0L);
  std::vector<long> ps(n);
  galois::ParallelSTL::partial_sum(v.begin(), v.end(), ps.begin());
  vf_window_end();
  size_t ec = std::count_if(v.begin(), v.end(), [](long x) { return x > 0; });
  long es   = std::accumulate(v.begin(), v.end(), 0L);
  long em   = 0;
  for (long x : v)
    em += x * x;
  std::vector<long> eps(n);
  std::partial_sum(v.begin(), v.end(), eps.begin());
  if (c != ec)
    vf_fail("pstl:count_if:wrong", "%zu vs %zu", c, ec);
  if (s != es)
    vf_fail("pstl:accumulate:wrong", "%ld vs %ld", s, es);
  if (m != em)
    vf_fail("pstl:map_reduce:wrong", "%ld vs %ld", m, em);
  if (ps != eps)
    vf_fail("pstl:partial_sum:wrong", "n=%d", n);
  vf_finish();
}

int main(int argc, char** argv) {
  std::vector<VfCase> cases;
  auto add = [&](std::string name, int qb, int tb, std::function<void()> body,
                 int w = 1) {
    VfCase c;
    c.name           = name;
    c.quick_bound    = qb;
    c.thorough_bound = tb;
    c.body           = body;
    c.weight         = w;
    cases.push_back(c);
  };
  // partition: the only synchronisation is takeLow/takeHigh/update
  const char* pats2[] = {"TF", "FT", "AA", "TT", "FF", "AF", "TA"};
  for (const char* p : pats2) {
    std::string b = p;
    add("partition blocks=" + b + "+1 T=2", 2, b == "FT" ? 5 : 4,
        [=] { partition_case({2}, 2, b, 1); }, b == "FT" ? 6 : 2);
  }
  const char* pats3[] = {"FTF", "TFT", "AFT", "FFT", "TAF", "FAT"};
  for (const char* p : pats3) {
    std::string b = p;
    add("partition blocks=" + b + "+0 T=2", 1, 3,
        [=] { partition_case({1, 1}, 2, b, 0); }, 2);
    add("partition blocks=" + b + "+1 T=3", -1, 2,
        [=] { partition_case({3}, 3, b, 1); }, 2);
  }
  add("partition blocks=FTFT+1 T=3", -1, 2,
      [=] { partition_case({2, 1}, 3, "FTFT", 1); }, 2);
  add("sort blocks=R+1 T=2", 1, 2, [=] { sort_case({2}, 2, "R", 1); }, 2);
  add("sort blocks=SR+1 T=2", -1, 1, [=] { sort_case({1, 1}, 2, "SR", 1); }, 2);
  add("find_if n=6 hit=[4] T=2", 1, 2, [=] { find_case({2}, 2, 6, {4}); });
  add("find_if n=600 hit=[10,500] T=2", 1, 2,
      [=] { find_case({2}, 2, 600, {10, 500}); });
  add("find_if n=600 none T=2", 1, 1, [=] { find_case({1, 1}, 2, 600, {}); });
  add("reductions n=20 T=2", 1, 2, [=] { reduce_case({2}, 2, 20); });
  add("reductions n=1030 T=3", 0, 1, [=] { reduce_case({2, 1}, 3, 1030); });
  return vf_main(argc, argv, "C16", cases);
}

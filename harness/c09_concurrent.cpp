// C09 (concurrent half): shared allocator paths under the schedule explorer:
// fixed-size heaps with cross-thread free, the page pool's free lists, the
// SizedHeapFactory lookup, per-thread-storage offset allocation racing on
// nextLoc.  Engine E1 (gsched).  DESIGN.md 7/C09 (E1 bullet).
#include "gsched.h"

#include "galois/Galois.h"
#include "galois/runtime/Mem.h"
#include "galois/runtime/PagePool.h"
#include "galois/substrate/PerThreadStorage.h"

#include <atomic>
#include <cstring>
#include <string>
#include <vector>

static std::string g_tag;

// engine-invisible registry of live blocks with canaries
struct Live {
  char* p;
  size_t n;
  unsigned char canary;
  bool live;
};
static Live reg[64];
static int nreg;
VF_NOINSTR static void fill(char* p, size_t n, unsigned char c) { memset(p, c, n); }
VF_NOINSTR static int on_alloc(void* ptr, size_t n, size_t align) {
  char* p = (char*)ptr;
  if (!p)
    vf_fail((g_tag + ":null-block").c_str(), "allocator returned null");
  if ((uintptr_t)p % align)
    vf_fail((g_tag + ":misaligned").c_str(), "block %p not aligned to %zu", ptr,
            align);
  for (int i = 0; i < nreg; ++i)
    if (reg[i].live && p < reg[i].p + reg[i].n && reg[i].p < p + n)
      vf_fail((g_tag + ":overlapping-live-blocks").c_str(),
              "new block [%p,+%zu) overlaps live block [%p,+%zu)", ptr, n,
              (void*)reg[i].p, reg[i].n);
  int k          = nreg++;
  reg[k].p       = p;
  reg[k].n       = n;
  reg[k].canary  = (unsigned char)(0xA0 + k);
  reg[k].live    = true;
  fill(p, n, reg[k].canary);
  return k;
}
VF_NOINSTR static void check_canaries() {
  for (int i = 0; i < nreg; ++i) {
    if (!reg[i].live)
      continue;
    for (size_t j = 0; j < reg[i].n; ++j)
      if ((unsigned char)reg[i].p[j] != reg[i].canary)
        vf_fail((g_tag + ":live-block-overwritten").c_str(),
                "byte %zu of live block %d changed", j, i);
  }
}
VF_NOINSTR static void* on_free(int k) {
  check_canaries();
  reg[k].live = false;
  return reg[k].p;
}

static void begin(std::vector<int> topo, unsigned T, std::string tag) {
  vf_set_topology(topo.data(), (int)topo.size());
  g_tag = tag;
  vf_tag(tag.c_str());
}

// ---- fixed-size heap: alloc on one thread, free on the other ---------------
static void fixed_case(std::vector<int> topo, unsigned T, size_t size) {
  begin(topo, T, "alloc=FixedSizeHeap");
  galois::SharedMemSys G;
  galois::setActiveThreads(T);
  static std::atomic<int> mailbox[4];
  for (auto& m : mailbox)
    m = -1;
  vf_window_begin();
  galois::on_each([&](unsigned tid, unsigned nt) {
    galois::runtime::FixedSizeHeap heap(size);
    int a = on_alloc(heap.allocate(size), size, 8);
    int b = on_alloc(heap.allocate(size), size, 8);
    // hand block a to the next thread, free what the previous thread hands me
    mailbox[(tid + 1) % nt].store(a, std::memory_order_release);
    int got;
    while ((got = mailbox[tid].load(std::memory_order_acquire)) < 0)
      galois::substrate::asmPause();
    heap.deallocate(on_free(got)); // freed on a different thread
    int c = on_alloc(heap.allocate(size), size, 8);
    heap.deallocate(on_free(b));
    int d = on_alloc(heap.allocate(size), size, 8);
    (void)c;
    (void)d;
  });
  vf_window_end();
  check_canaries();
  vf_finish();
}

// ---- page pool: alloc / free / cross-thread free ------------------------------
static void page_case(std::vector<int> topo, unsigned T) {
  begin(topo, T, "alloc=PagePool");
  galois::SharedMemSys G;
  galois::setActiveThreads(T);
  static std::atomic<int> mailbox[4];
  for (auto& m : mailbox)
    m = -1;
  size_t psz = galois::runtime::pagePoolSize();
  vf_window_begin();
  galois::on_each([&](unsigned tid, unsigned nt) {
    int a = on_alloc(galois::runtime::pagePoolAlloc(), 64, 4096);
    mailbox[(tid + 1) % nt].store(a, std::memory_order_release);
    int got;
    while ((got = mailbox[tid].load(std::memory_order_acquire)) < 0)
      galois::substrate::asmPause();
    galois::runtime::pagePoolFree(on_free(got));
    int b = on_alloc(galois::runtime::pagePoolAlloc(), 64, 4096);
    galois::runtime::pagePoolFree(on_free(b));
  });
  vf_window_end();
  (void)psz;
  check_canaries();
  vf_finish();
}

// ---- SizedHeapFactory lookup from two threads ----------------------------------
static void factory_case(std::vector<int> topo, unsigned T) {
  begin(topo, T, "alloc=SizedHeapFactory");
  galois::SharedMemSys G;
  galois::setActiveThreads(T);
  static void* seen[4][2];
  vf_window_begin();
  galois::on_each([&](unsigned tid, unsigned) {
    seen[tid][0] = galois::runtime::SizedHeapFactory::getHeapForSize(40);
    seen[tid][1] = galois::runtime::SizedHeapFactory::getHeapForSize(48);
  });
  vf_window_end();
  for (unsigned t = 1; t < T; ++t)
    for (int k = 0; k < 2; ++k)
      if (seen[t][k] != seen[0][k])
        vf_fail("alloc=SizedHeapFactory:two-heaps-for-one-size",
                "threads 0 and %u got different heaps for the same size", t);
  if (seen[0][0] == seen[0][1])
    vf_fail("alloc=SizedHeapFactory:one-heap-for-two-sizes",
            "sizes 40 and 48 share a heap");
  vf_finish();
}

// ---- per-thread storage offsets racing on nextLoc --------------------------------
struct Pad {
  long v[3];
};
static void pts_case(std::vector<int> topo, unsigned T) {
  begin(topo, T, "alloc=PerThreadStorage");
  galois::SharedMemSys G;
  galois::setActiveThreads(T);
  static unsigned off[4][3];
  auto& be = galois::substrate::getPTSBackend();
  vf_window_begin();
  galois::on_each([&](unsigned tid, unsigned) {
    off[tid][0] = be.allocOffset(sizeof(Pad));
    off[tid][1] = be.allocOffset(200);
    be.deallocOffset(off[tid][0], sizeof(Pad));
    off[tid][2] = be.allocOffset(sizeof(Pad));
  });
  vf_window_end();
  // live at the end: off[t][1] (200 bytes -> 256) and off[t][2] (24 -> 32)
  struct R {
    unsigned lo, hi;
  };
  std::vector<R> live;
  for (unsigned t = 0; t < T; ++t) {
    live.push_back({off[t][1], off[t][1] + 200});
    live.push_back({off[t][2], off[t][2] + (unsigned)sizeof(Pad)});
  }
  for (size_t i = 0; i < live.size(); ++i) {
    if (live[i].lo % 8)
      vf_fail("alloc=PerThreadStorage:misaligned", "offset %u", live[i].lo);
    for (size_t j = i + 1; j < live.size(); ++j)
      if (live[i].lo < live[j].hi && live[j].lo < live[i].hi)
        vf_fail("alloc=PerThreadStorage:overlapping-live-offsets",
                "offsets [%u,%u) and [%u,%u) are both live", live[i].lo,
                live[i].hi, live[j].lo, live[j].hi);
  }
  vf_finish();
}

int main(int argc, char** argv) {
  std::vector<VfCase> cases;
  auto add = [&](std::string name, int qb, int tb, std::function<void()> body,
                 int w = 1) {
    VfCase c;
    c.name           = name;
    c.quick_bound    = qb;
    c.thorough_bound = tb;
    c.body           = body;
    c.weight         = w;
    cases.push_back(c);
  };
  add("FixedSizeHeap(24) cross-thread free topo=[2] T=2", 2, 4,
      [] { fixed_case({2}, 2, 24); }, 2);
  add("FixedSizeHeap(24) cross-thread free topo=[1,1] T=2", 2, 3,
      [] { fixed_case({1, 1}, 2, 24); }, 2);
  add("FixedSizeHeap(100) cross-thread free topo=[2,1] T=3", 1, 2,
      [] { fixed_case({2, 1}, 3, 100); }, 2);
  add("PagePool cross-thread free topo=[2] T=2", 2, 4,
      [] { page_case({2}, 2); }, 2);
  add("PagePool cross-thread free topo=[1,1] T=2", 2, 3,
      [] { page_case({1, 1}, 2); }, 2);
  add("SizedHeapFactory lookup topo=[2] T=2", 3, 5,
      [] { factory_case({2}, 2); });
  add("SizedHeapFactory lookup topo=[3] T=3", 1, 3,
      [] { factory_case({3}, 3); });
  add("PerThreadStorage offsets topo=[2] T=2", 3, 5, [] { pts_case({2}, 2); });
  add("PerThreadStorage offsets topo=[3] T=3", 1, 3, [] { pts_case({3}, 3); });
  return vf_main(argc, argv, "C09", cases);
}

// C04 (instruction granularity): real threads drive the termination detectors
// with a scripted hand-over history under the schedule explorer.
// Engine E1 (gsched).  DESIGN.md 7/C04.
#include "gsched.h"

#include "galois/Galois.h"
#include "galois/substrate/Barrier.h"
#include "galois/substrate/Termination.h"

#include <atomic>
#include <string>
#include <vector>

using galois::substrate::TerminationDetection;
using galois::substrate::internal::LocalTerminationDetection;
using galois::substrate::internal::TreeTerminationDetection;

// a unit of generation g processed by thread t creates (script) a unit of
// generation g+1 for thread (t + dir[g]) mod T, until generation G
#define MAXG 4
static std::atomic<int> box[4][MAXG + 1]; // pending units per (thread, gen)
static int outstanding;                   // engine-invisible: created - done
VF_NOINSTR static void created() { outstanding++; }
VF_NOINSTR static void finished() { outstanding--; }
VF_NOINSTR static int pending() { return outstanding; }

static std::string g_tag;

static void run_loop(TerminationDetection& term, unsigned T,
                     const std::vector<int>& dir, int G, int round) {
  auto& barrier = galois::substrate::getBarrier(T);
  galois::on_each([&](unsigned tid, unsigned) {
    term.initializeThread();
    barrier.wait();
    for (;;) {
      bool did = false;
      for (int g = 0; g <= G; ++g) {
        while (box[tid][g].load(std::memory_order_acquire) > 0) {
          box[tid][g].fetch_sub(1, std::memory_order_acq_rel);
          did = true;
          if (g < G) {
            unsigned to = (tid + T + dir[g]) % T;
            created();
            box[to][g + 1].fetch_add(1, std::memory_order_acq_rel);
          }
          finished();
          vf_log(1, tid, g);
        }
      }
      term.localTermination(did);
      galois::substrate::asmPause();
      if (term.globalTermination()) {
        if (pending() != 0)
          vf_note_fail((g_tag + ":premature-termination").c_str(),
                       "thread %u saw global termination in round %d with %d "
                       "units outstanding",
                       tid, round, pending());
        break;
      }
    }
  });
}

static void term_case(std::string det, std::vector<int> topo, unsigned T,
                      std::vector<int> dir, int G, unsigned T2) {
  vf_set_topology(topo.data(), (int)topo.size());
  g_tag = "term=" + det;
  vf_tag(g_tag.c_str());
  galois::SharedMemSys G_;
  galois::setActiveThreads(T);
  TerminationDetection* term;
  if (det == "ring")
    term = new LocalTerminationDetection<>();
  else if (det == "tree")
    term = new TreeTerminationDetection<>();
  else
    term = &galois::substrate::getSystemTermination(T);
  term->init(T);
  created();
  box[0][0] = 1;
  created();
  box[T - 1][0] = box[T - 1][0] + 1;
  vf_window_begin();
  run_loop(*term, T, dir, G, 0);
  vf_window_end();
  if (pending() != 0)
    vf_fail((g_tag + ":premature-termination").c_str(),
            "loop ended with %d units outstanding", pending());
  if (T2) { // re-arm with a different thread count
    galois::setActiveThreads(T2);
    // same thread count = re-arm IN PLACE, as the executors do between
    // rounds: initializeThread() again on the detector already held, no init()
    if (T2 != T)
      term->init(T2);
    created();
    box[T2 - 1][0] = 1;
    vf_window_begin();
    run_loop(*term, T2, dir, G, 1);
    vf_window_end();
    if (pending() != 0)
      vf_fail((g_tag + ":premature-termination-after-rearm").c_str(),
              "second loop ended with %d units outstanding", pending());
  }
  vf_outcome(vf_log_count());
  vf_finish();
}

static std::string topo_str(const std::vector<int>& t) {
  std::string s = "[";
  for (size_t i = 0; i < t.size(); ++i)
    s += (i ? "," : "") + std::to_string(t[i]);
  return s + "]";
}

int main(int argc, char** argv) {
  std::vector<VfCase> cases;
  auto add = [&](std::string det, std::vector<int> topo, unsigned T,
                 std::vector<int> dir, unsigned T2, int qb, int tb) {
    VfCase c;
    c.name = "term=" + det + " topo=" + topo_str(topo) +
             " T=" + std::to_string(T) + " handovers=";
    for (int d : dir)
      c.name += (d > 0 ? "+" : "") + std::to_string(d);
    if (T2)
      c.name += " rearm=" + std::to_string(T2);
    c.quick_bound    = qb;
    c.thorough_bound = tb;
    int G            = (int)dir.size();
    c.body = [=]() { term_case(det, topo, T, dir, G, T2); };
    cases.push_back(c);
  };
  for (const char* d : {"ring", "tree"}) {
    std::string det = d;
    add(det, {1}, 1, {}, 0, 0, 0);
    add(det, {2}, 2, {1, -1}, 0, 1, 2);   // forward, then back "behind" the token
    add(det, {2}, 2, {-1}, 0, 1, 3);
    add(det, {3}, 3, {1, 1}, 0, 1, 2);
    add(det, {3}, 3, {-1, 1}, 0, 1, 1);
    add(det, {3}, 3, {1}, 2, 1, 1);       // re-arm 3 -> 2
    add(det, {3}, 2, {1}, 3, 1, 1);       // re-arm 2 -> 3
    add(det, {4}, 4, {1}, 0, -1, 1);
    add(det, {2}, 2, {1}, 2, 1, 2);       // re-arm in place
    add(det, {3}, 3, {-1}, 3, 1, 1);      // re-arm in place
  }
  add("system", {2, 1}, 3, {1, -1}, 2, 1, 1);
  return vf_main(argc, argv, "C04", cases);
}

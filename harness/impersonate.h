// Thread impersonation for call-granularity exploration (DESIGN.md 2.8):
// one OS thread acts as logical Galois thread i by switching the three
// thread-local roots the runtime keys its per-thread state on.
// Harness TUs are compiled with -fno-access-control.
#ifndef VERIF_IMPERSONATE_H
#define VERIF_IMPERSONATE_H

#include "galois/Galois.h"
#include "galois/substrate/PerThreadStorage.h"
#include "galois/substrate/ThreadPool.h"

#include <vector>

struct Impersonate {
  std::vector<galois::substrate::ThreadTopoInfo> topo;
  std::vector<char*> pts, pss;
  unsigned self = 0;

  // call once, after SharedMemSys exists, from the main thread
  void capture(unsigned n) {
    topo.resize(n);
    pts.resize(n);
    pss.resize(n);
    unsigned old = galois::getActiveThreads();
    galois::setActiveThreads(n);
    galois::on_each([&](unsigned tid, unsigned) {
      topo[tid] = galois::substrate::ThreadPool::my_box.topo;
      pts[tid]  = galois::substrate::ptsBase;
      pss[tid]  = galois::substrate::pssBase;
    });
    galois::setActiveThreads(old);
  }
  void as(unsigned tid) {
    galois::substrate::ThreadPool::my_box.topo = topo[tid];
    galois::substrate::ptsBase                 = pts[tid];
    galois::substrate::pssBase                 = pss[tid];
    self                                       = tid;
  }
  void restore() { as(0); }
};

#endif

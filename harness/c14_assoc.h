// C14: flat_map, PODResizeableArray, LazyArray, LazyObject, optional.
#ifndef VERIF_C14_ASSOC_H
#define VERIF_C14_ASSOC_H

#include "c14_elem.h"

#include <cassert> // PODResizeableArray.h uses assert without including it
#include <tuple>   // FlatMap.h uses std::forward_as_tuple without including it

#include "galois/CopyableTuple.h"
#include "galois/FlatMap.h"
#include "galois/LazyArray.h"
#include "galois/LazyObject.h"
#include "galois/PODResizeableArray.h"
#include "galois/optional.h"

#include <map>
#include <memory>
#include <optional>

namespace c14 {

// ===========================================================================
// flat_map<int,Elem> against std::map<int,int>
// Inserted values are 1+size() (a function of the state, so equal states stay
// equal) which makes "insert must not overwrite" observable.
// ===========================================================================
static const char* const FM_OPS[] = {
    "insert({0,1+size})", "insert({1,1+size})", "insert({2,1+size})",
    "emplace(0,1+size)", "emplace(1,1+size)", "emplace(2,1+size)",
    "m[0]=5+size", "m[1]=5+size [rvalue key]", "m[2]=5+size", "erase(key 0)",
    "erase(key 1)", "erase(key 2)", "erase(begin())",
    "erase(const_iterator to last)", "erase(begin(),begin()+2)",
    "insert(range {2,8},{0,9},{2,7})", "clear", "move-construct",
    "move-assign over a 1-entry map", "copy-construct", "copy-assign",
    "swap through an empty map"};
static const int FM_NOPS = 22;

struct FlatMapCase {
  typedef galois::flat_map<int, Elem> M;
  typedef std::map<int, int> R;

  static std::string shape(M& m) {
    std::ostringstream o;
    for (auto& kv : m)
      o << kv.first << "=" << kv.second.v << ",";
    o << "cap" << m._data.capacity();
    return o.str();
  }

  static std::vector<int> flat(const R& r) {
    std::vector<int> v;
    for (auto& kv : r) {
      v.push_back(kv.first);
      v.push_back(kv.second);
    }
    return v;
  }
  template <class It>
  static std::vector<int> flat_it(const char* after, const char* what, It b,
                                  It e, size_t bound) {
    const std::string C = "flat_map";
    std::vector<int> v;
    size_t n = 0;
    for (; b != e; ++b) {
      if (n++ > bound)
        sx::fail(C + ":" + what + "-overruns", "after %s", after);
      if (const char* bad = bad_obj(b->second))
        sx::fail(C + ":" + what + "-" + bad, "after %s: key %d", after,
                 b->first);
      v.push_back(b->first);
      v.push_back(b->second.v);
    }
    return v;
  }

  static void check(M& m, const R& r, const char* after, long extra_live) {
    const std::string C = "flat_map";
    check_live(C, after, (long)r.size() + extra_live);
    if (m.size() != r.size() || m.empty() != r.empty())
      sx::fail(C + ":size", "after %s: size()/empty() = %zu/%d, reference "
                            "%zu/%d",
               after, m.size(), (int)m.empty(), r.size(), (int)r.empty());
    const M& cm = m;
    size_t bound = r.size() + 2;
    auto want    = flat(r);
    std::vector<int> rwant;
    for (auto it = r.rbegin(); it != r.rend(); ++it) {
      rwant.push_back(it->first);
      rwant.push_back(it->second);
    }
    expect_seq(C + ":forward-traversal", after, "begin()..end() (key,value)",
               flat_it(after, "forward-traversal", m.begin(), m.end(), bound),
               want);
    expect_seq(C + ":const-forward-traversal", after, "cbegin()..cend()",
               flat_it(after, "const-forward-traversal", cm.cbegin(), cm.cend(),
                       bound),
               want);
    expect_seq(C + ":const-forward-traversal", after, "const begin()..end()",
               flat_it(after, "const-forward-traversal", cm.begin(), cm.end(),
                       bound),
               want);
    expect_seq(C + ":reverse-traversal", after, "rbegin()..rend()",
               flat_it(after, "reverse-traversal", m.rbegin(), m.rend(), bound),
               rwant);
    expect_seq(C + ":const-reverse-traversal", after, "crbegin()..crend()",
               flat_it(after, "const-reverse-traversal", cm.crbegin(),
                       cm.crend(), bound),
               rwant);
    for (int k = -1; k <= 3; ++k) {
      auto ri = r.find(k);
      auto mi = m.find(k);
      auto ci = cm.find(k);
      if ((mi == m.end()) != (ri == r.end()) ||
          (ci == cm.end()) != (ri == r.end()) ||
          (ri != r.end() && (mi->first != k || mi->second.v != ri->second ||
                             ci->second.v != ri->second)))
        sx::fail(C + ":find", "after %s: find(%d) disagrees with std::map",
                 after, k);
      if (m.count(k) != r.count(k))
        sx::fail(C + ":count", "after %s: count(%d) = %zu, reference %zu",
                 after, k, m.count(k), r.count(k));
      auto rl = std::distance(r.begin(), r.lower_bound(k));
      if (m.lower_bound(k) - m.begin() != rl ||
          cm.lower_bound(k) - cm.begin() != rl)
        sx::fail(C + ":lower_bound",
                 "after %s: lower_bound(%d) at index %ld, reference %ld", after,
                 k, (long)(m.lower_bound(k) - m.begin()), (long)rl);
      // upper_bound/equal_range cannot be instantiated (see compile probes)
      bool threw = false, cthrew = false;
      int got = 0, cgot = 0;
      try {
        got = m.at(k).v;
      } catch (const std::out_of_range&) {
        threw = true;
      }
      try {
        cgot = cm.at(k).v;
      } catch (const std::out_of_range&) {
        cthrew = true;
      }
      if (threw != (ri == r.end()) || cthrew != threw ||
          (!threw && (got != ri->second || cgot != got)))
        sx::fail(C + ":at", "after %s: at(%d) %s, reference %s", after, k,
                 threw ? "throws" : "returns a value",
                 ri == r.end() ? "throws" : "returns a value");
    }
  }

  template <class P>
  static void expect_ins(M& m, const R& r, const P& p, int k, bool want_new,
                         const char* after) {
    const std::string C = "flat_map";
    if (p.second != want_new)
      sx::fail(C + ":insert-return-flag",
               "after %s: second = %d, std::map reports %d", after,
               (int)p.second, (int)want_new);
    auto ri = r.find(k);
    if (p.first < m.begin() || p.first >= m.end())
      sx::fail(C + ":insert-return-iterator",
               "after %s: returned iterator is outside [begin,end)", after);
    if (p.first->first != k || p.first->second.v != ri->second ||
        p.first - m.begin() != std::distance(r.begin(), ri))
      sx::fail(C + ":insert-return-iterator",
               "after %s: returned iterator designates (%d,%d) at index %ld, "
               "reference (%d,%d) at index %ld",
               after, p.first->first, p.first->second.v,
               (long)(p.first - m.begin()), k, ri->second,
               (long)std::distance(r.begin(), ri));
  }

  static std::string run(const std::vector<int>& hist) {
    reg().reset();
    const std::string C = "flat_map";
    std::string key;
    {
      std::unique_ptr<M> m(new M());
      R r;
      check(*m, r, "construction", 0);
      for (int op : hist) {
        const char* nm = FM_OPS[op];
        int nv         = 1 + (int)r.size();
        if (op <= 2) {
          int k = op;
          std::pair<int, Elem> kv(k, Elem(nv));
          auto p  = m->insert(kv);
          auto rp = r.insert({k, nv});
          expect_ins(*m, r, p, k, rp.second, nm);
        } else if (op <= 5) {
          int k   = op - 3;
          auto p  = m->emplace(k, Elem(nv));
          auto rp = r.emplace(k, nv);
          expect_ins(*m, r, p, k, rp.second, nm);
        } else if (op <= 8) {
          int k  = op - 6;
          int av = 5 + (int)r.size(); // size BEFORE the subscript inserts
          int kk = k;
          Elem& slot = op == 7 ? (*m)[std::move(kk)] : (*m)[k];
          if (!r.count(k) && (slot.v != -1 || bad_obj(slot)))
            sx::fail(C + ":subscript-default",
                     "after %s: new mapped value is not default-constructed",
                     nm);
          if (r.count(k) && slot.v != r[k])
            sx::fail(C + ":subscript-value",
                     "after %s: m[%d] = %d, reference %d", nm, k, slot.v, r[k]);
          slot = Elem(av);
          r[k] = av;
        } else if (op <= 11) {
          int k    = op - 9;
          size_t a = m->erase(k), b = r.erase(k);
          if (a != b)
            sx::fail(C + ":erase-key-return", "after %s: returned %zu, "
                                              "reference %zu",
                     nm, a, b);
        } else if (op == 12) {
          if (!r.empty()) {
            auto it = m->erase(m->begin());
            r.erase(r.begin());
            if (it != m->begin())
              sx::fail(C + ":erase-iterator-return",
                       "after %s: does not return the following element", nm);
          }
        } else if (op == 13) {
          if (!r.empty()) {
            M::const_iterator ci = m->cend() - 1;
            auto it              = m->erase(ci);
            r.erase(std::prev(r.end()));
            if (it != m->end())
              sx::fail(C + ":erase-iterator-return",
                       "after %s: does not return end()", nm);
          }
        } else if (op == 14) {
          if (r.size() >= 2) {
            M::const_iterator b = m->cbegin();
            auto it             = m->erase(b, b + 2);
            r.erase(r.begin(), std::next(r.begin(), 2));
            if (it != m->begin())
              sx::fail(C + ":erase-iterator-return",
                       "after %s: does not return the following element", nm);
          }
        } else if (op == 15) {
          std::vector<std::pair<int, Elem>> src;
          src.emplace_back(2, Elem(8));
          src.emplace_back(0, Elem(9));
          src.emplace_back(2, Elem(7));
          m->insert(src.begin(), src.end());
          std::vector<std::pair<int, int>> rs = {{2, 8}, {0, 9}, {2, 7}};
          r.insert(rs.begin(), rs.end());
        } else if (op == 16) {
          m->clear();
          r.clear();
        } else if (op == 17) {
          std::unique_ptr<M> n(new M(std::move(*m)));
          m.reset();
          m = std::move(n);
        } else if (op == 18) {
          std::unique_ptr<M> n(new M());
          (*n)[1] = Elem(42);
          *n      = std::move(*m);
          m.reset();
          m = std::move(n);
        } else if (op == 19) {
          std::unique_ptr<M> n(new M(*m));
          check(*n, r, "copy-construct (the copy, original still alive)",
                (long)r.size());
          m.reset();
          m = std::move(n);
        } else if (op == 20) {
          std::unique_ptr<M> n(new M());
          (*n)[1] = Elem(42);
          *n      = *m;
          check(*n, r, "copy-assign (the copy, original still alive)",
                (long)r.size());
          m.reset();
          m = std::move(n);
        } else if (op == 21) {
          M other;
          m->swap(other);
          R none;
          check(*m, none, "swap (now empty side)", (long)r.size());
          std::swap(*m, other);
        }
        check(*m, r, nm, 0);
        // non-trivial: an insertion went in front of an existing key (shifted
        // the array) -- approximated by: >= 2 keys present
        if (r.size() >= 2)
          sx::mark_nontrivial();
      }
      key = shape(*m);
    }
    check_live(C, "destruction", 0);
    sx::outcome(sx::hash_str(key));
    return key;
  }
};

inline std::string fm_vkey(const std::map<int, int>& r) {
  std::ostringstream o;
  for (auto& kv : r)
    o << kv.first << "=" << kv.second << ",";
  return o.str();
}

// range constructor: every sequence of <= 3 (thorough 4) pairs, keys 0..2,
// values 0..1
struct FlatMapRange {
  static uint64_t count(bool th) {
    int maxn   = th ? 5 : 4;
    uint64_t s = 0, p = 1;
    for (int n = 0; n <= maxn; ++n) {
      s += p;
      p *= 6;
    }
    return s;
  }
  static std::vector<std::pair<int, int>> decode(uint64_t idx) {
    std::vector<std::pair<int, int>> v;
    uint64_t p = 1;
    int n      = 0;
    while (idx >= p) {
      idx -= p;
      p *= 6;
      ++n;
    }
    for (int i = 0; i < n; ++i) {
      v.push_back({(int)(idx % 6) / 2, (int)(idx % 2)});
      idx /= 6;
    }
    return v;
  }
  static std::string describe(uint64_t idx, bool) {
    std::ostringstream o;
    o << "pairs";
    for (auto& kv : decode(idx))
      o << " (" << kv.first << "," << kv.second << ")";
    return o.str();
  }
  static void run(uint64_t idx, bool) {
    reg().reset();
    auto in = decode(idx);
    std::map<int, int> r(in.begin(), in.end());
    // non-trivial: duplicate key or unsorted input
    for (size_t i = 1; i < in.size(); ++i)
      if (in[i].first <= in[i - 1].first)
        sx::mark_nontrivial();
    sx::outcome(sx::hash_str(fm_vkey(r)));
    {
      std::vector<std::pair<int, Elem>> src;
      for (auto& kv : in)
        src.emplace_back(kv.first, Elem(kv.second));
      galois::flat_map<int, Elem> m(src.begin(), src.end());
      std::vector<int> keys, rkeys;
      for (auto& kv : m)
        keys.push_back(kv.first);
      for (auto& kv : r)
        rkeys.push_back(kv.first);
      if (keys != rkeys)
        sx::fail("flat_map:range-constructor-keeps-duplicate-keys",
                 "flat_map(first,last) holds keys %s, std::map(first,last) "
                 "holds %s",
                 vstr(keys).c_str(), vstr(rkeys).c_str());
      for (auto& kv : m)
        if (kv.second.v != r[kv.first])
          sx::fail("flat_map:range-constructor-value",
                   "key %d maps to %d, std::map keeps the first occurrence %d",
                   kv.first, kv.second.v, r[kv.first]);
      for (int k = 0; k < 3; ++k)
        if ((m.find(k) != m.end()) != (r.count(k) != 0))
          sx::fail("flat_map:range-constructor-find", "find(%d) disagrees", k);
      check_live("flat_map", "range construction",
                 (long)m.size() + (long)src.size());
    }
    check_live("flat_map", "destruction", 0);
  }
};

// ===========================================================================
// PODResizeableArray<int> against std::vector<int>; -9 marks "unspecified"
// (elements exposed by resize() are documented as uninitialised: never read)
// ===========================================================================
static const char* const POD_OPS[] = {
    "push_back(0)", "push_back(1)", "resize(size+2)", "resize(size-1)",
    "reserve(size+3)", "write 7 to every unspecified element", "clear",
    "insert(end(), {4,5})", "assign({6})", "assign({4,5,6})",
    "move-construct", "move-assign over a 1-element array",
    "swap through an empty array", "construct from range (copy of contents)",
    "construct with size then fill"};
static const int POD_NOPS = 15;
static const int UNK      = -9;

struct PodCase {
  typedef galois::PODResizeableArray<int> A;

  static void check(A& a, const std::vector<int>& m, const char* after) {
    const std::string C = "PODResizeableArray";
    if (a.size() != m.size() || a.empty() != m.empty())
      sx::fail(C + ":size", "after %s: size()/empty() = %zu/%d, reference "
                            "%zu/%d",
               after, a.size(), (int)a.empty(), m.size(), (int)m.empty());
    if (a.capacity_ < a.size_)
      sx::fail(C + ":capacity", "after %s: capacity %zu < size %zu", after,
               a.capacity_, a.size_);
    const A& ca = a;
    if ((size_t)(a.end() - a.begin()) != m.size() ||
        (size_t)(ca.end() - ca.begin()) != m.size() ||
        (size_t)(ca.cend() - ca.cbegin()) != m.size() ||
        (size_t)(a.rend() - a.rbegin()) != m.size() ||
        (size_t)(ca.crend() - ca.crbegin()) != m.size())
      sx::fail(C + ":iterator-range", "after %s: an iterator range does not "
                                      "span size() elements",
               after);
    if (m.size() && a.data() != &a[0])
      sx::fail(C + ":data", "after %s: data() != &a[0]", after);
    for (size_t i = 0; i < m.size(); ++i) {
      if (m[i] == UNK)
        continue;
      int want = m[i];
      size_t n = m.size();
      if (a[i] != want || ca[i] != want || a.at(i) != want ||
          ca.at(i) != want || a.begin()[i] != want || ca.begin()[i] != want ||
          a.rbegin()[n - 1 - i] != want || ca.rbegin()[n - 1 - i] != want ||
          ca.crbegin()[n - 1 - i] != want || a.data()[i] != want)
        sx::fail(C + ":element", "after %s: element %zu read through one of "
                                 "[] / at / begin / rbegin / data is not %d",
                 after, i, want);
    }
    if (!m.empty()) {
      if (m.front() != UNK && (a.front() != m.front() || ca.front() != m.front()))
        sx::fail(C + ":front", "after %s: front() = %d, reference %d", after,
                 a.front(), m.front());
      if (m.back() != UNK && (a.back() != m.back() || ca.back() != m.back()))
        sx::fail(C + ":back", "after %s: back() = %d, reference %d", after,
                 a.back(), m.back());
    }
    for (size_t i : {m.size(), m.size() + 1}) {
      bool threw = false;
      try {
        (void)a.at(i);
      } catch (const std::out_of_range&) {
        threw = true;
      }
      bool cthrew = false;
      try {
        (void)ca.at(i);
      } catch (const std::out_of_range&) {
        cthrew = true;
      }
      if (!threw || !cthrew)
        sx::fail(C + ":at-out-of-range", "after %s: at(%zu) does not throw "
                                         "with size %zu",
                 after, i, m.size());
    }
  }

  static std::string run(const std::vector<int>& hist) {
    const std::string C = "PODResizeableArray";
    std::unique_ptr<A> a(new A());
    std::vector<int> m;
    check(*a, m, "construction");
    for (int op : hist) {
      const char* nm = POD_OPS[op];
      switch (op) {
      case 0:
      case 1:
        a->push_back(op);
        m.push_back(op);
        break;
      case 2:
        a->resize(m.size() + 2);
        m.resize(m.size() + 2, UNK);
        break;
      case 3:
        if (!m.empty()) {
          a->resize(m.size() - 1);
          m.resize(m.size() - 1);
        }
        break;
      case 4: {
        size_t cap = a->capacity_;
        a->reserve(m.size() + 3);
        if (a->capacity_ < m.size() + 3 || a->capacity_ < cap)
          sx::fail(C + ":reserve", "after %s: capacity %zu (was %zu, asked "
                                   "%zu)",
                   nm, a->capacity_, cap, m.size() + 3);
      } break;
      case 5:
        for (size_t i = 0; i < m.size(); ++i)
          if (m[i] == UNK) {
            (*a)[i] = 7;
            m[i]    = 7;
          }
        break;
      case 6:
        a->clear();
        m.clear();
        break;
      case 7: {
        int src[2] = {4, 5};
        a->insert(a->end(), src, src + 2);
        m.insert(m.end(), src, src + 2);
      } break;
      case 8: {
        int src[1] = {6};
        a->assign(src, src + 1);
        m.assign(src, src + 1);
      } break;
      case 9: {
        int src[3] = {4, 5, 6};
        a->assign(src, src + 3);
        m.assign(src, src + 3);
      } break;
      case 10: {
        std::unique_ptr<A> n(new A(std::move(*a)));
        a.reset();
        a = std::move(n);
      } break;
      case 11: {
        std::unique_ptr<A> n(new A());
        n->push_back(42);
        *n = std::move(*a);
        a.reset();
        a = std::move(n);
      } break;
      case 12: {
        A other;
        a->swap(other);
        std::vector<int> none;
        check(*a, none, "swap (now empty side)");
        other.swap(*a);
      } break;
      case 13: {
        // only fully specified contents can be copied out
        bool known = true;
        for (int x : m)
          if (x == UNK)
            known = false;
        if (known) {
          std::vector<int> src(m);
          std::unique_ptr<A> n(new A(src.begin(), src.end()));
          a.reset();
          a = std::move(n);
        }
      } break;
      case 14: {
        std::unique_ptr<A> n(new A(m.size()));
        for (size_t i = 0; i < m.size(); ++i) {
          (*n)[i] = 3;
          m[i]    = 3;
        }
        a.reset();
        a = std::move(n);
      } break;
      }
      check(*a, m, nm);
      // non-trivial: the buffer was reallocated at least twice (capacity >= 4)
      if (a->capacity_ >= 4)
        sx::mark_nontrivial();
    }
    std::ostringstream o;
    for (int x : m)
      o << (x == UNK ? std::string("?") : std::to_string(x)) << ",";
    o << "cap" << a->capacity_;
    sx::outcome(sx::hash_str(o.str()));
    return o.str();
  }
};

// std::vector guarantees v.push_back(v[i]) works; separate case because the
// only way the real code can fail here is a heap-use-after-free report.
static const char* const PODA_OPS[] = {"push_back(0)", "push_back(1)",
                                       "push_back(a.front())",
                                       "push_back(a.back())"};
inline std::string poda_run(const std::vector<int>& hist) {
  galois::PODResizeableArray<int> a;
  std::vector<int> m;
  for (int op : hist) {
    switch (op) {
    case 0:
    case 1:
      a.push_back(op);
      m.push_back(op);
      break;
    case 2:
      if (!m.empty()) {
        a.push_back(a.front());
        m.push_back(m.front());
      }
      break;
    case 3:
      if (!m.empty()) {
        a.push_back(a.back());
        m.push_back(m.back());
      }
      break;
    }
    PodCase::check(a, m, PODA_OPS[op]);
    if (a.capacity_ >= 4)
      sx::mark_nontrivial();
  }
  std::string key = vstr(m) + "cap" + std::to_string(a.capacity_);
  sx::outcome(sx::hash_str(key));
  return key;
}

// ===========================================================================
// LazyArray<Elem,3>: three slots whose lifetime the user controls.
// ===========================================================================
static const char* const LA_OPS[] = {
    "construct(0,const&0)", "construct(1,const&0)", "construct(2,const&0)",
    "construct(0,&&1)", "construct(1,&&1)", "construct(2,&&1)", "emplace(0,2)",
    "emplace(1,2)", "emplace(2,2)", "destroy(0)", "destroy(1)", "destroy(2)",
    "a[i]=3 for every constructed i"};
static const int LA_NOPS = 13;

inline std::string la_run(const std::vector<int>& hist) {
  const std::string C = "LazyArray<3>";
  reg().reset();
  typedef galois::LazyArray<Elem, 3> A;
  std::string key;
  {
    A a;
    const A& ca = a;
    int m[3]    = {-1, -1, -1}; // -1 = not constructed
    auto check  = [&](const char* after) {
      long live = 0;
      for (int i = 0; i < 3; ++i)
        live += m[i] >= 0;
      check_live(C, after, live);
      if (a.size() != 3 || a.max_size() != 3 || a.empty())
        sx::fail(C + ":size", "after %s: size/max_size/empty wrong", after);
      if (a.end() - a.begin() != 3 || ca.end() - ca.begin() != 3 ||
          ca.cend() - ca.cbegin() != 3 || a.rend() - a.rbegin() != 3 ||
          ca.crend() - ca.crbegin() != 3 || ca.rend() - ca.rbegin() != 3)
        sx::fail(C + ":iterator-range", "after %s: an iterator range does not "
                                        "span 3 slots",
                 after);
      for (int i = 0; i < 3; ++i) {
        if (&a[i] != a.data() + i || &ca[i] != ca.data() + i ||
            &a[i] != a.begin() + i || &*(a.rbegin() + (2 - i)) != &a[i] ||
            &*(ca.crbegin() + (2 - i)) != &ca[i])
          sx::fail(C + ":addressing", "after %s: slot %d is not at the same "
                                      "address through [] / data / begin / "
                                      "rbegin",
                   after, i);
        if (m[i] < 0)
          continue;
        if (bad_obj(a[i]) || a[i].v != m[i] || ca[i].v != m[i])
          sx::fail(C + ":element", "after %s: slot %d holds %d, reference %d",
                   after, i, a[i].v, m[i]);
      }
      if (m[0] >= 0 && (a.front().v != m[0] || ca.front().v != m[0]))
        sx::fail(C + ":front", "after %s: front() wrong", after);
      if (m[2] >= 0 && (a.back().v != m[2] || ca.back().v != m[2]))
        sx::fail(C + ":back", "after %s: back() wrong", after);
    };
    check("construction");
    for (int op : hist) {
      const char* nm = LA_OPS[op];
      int i          = op % 3;
      Elem* p        = nullptr;
      if (op < 9 && m[i] < 0) {
        if (op < 3) {
          Elem x(0);
          p    = a.construct(i, x);
          m[i] = 0;
        } else if (op < 6) {
          p    = a.construct(i, Elem(1));
          m[i] = 1;
        } else {
          p    = a.emplace(i, 2);
          m[i] = 2;
        }
        if (p != &a[i])
          sx::fail(C + ":construct-return",
                   "after %s: returned pointer is not the slot", nm);
      } else if (op >= 9 && op < 12 && m[i] >= 0) {
        a.destroy(i);
        m[i] = -1;
      } else if (op == 12) {
        for (int k = 0; k < 3; ++k)
          if (m[k] >= 0) {
            a[k] = Elem(3);
            m[k] = 3;
          }
      }
      check(nm);
      if ((m[0] >= 0) + (m[1] >= 0) + (m[2] >= 0) >= 2)
        sx::mark_nontrivial(); // >= 2 slots alive at once
    }
    std::ostringstream o;
    for (int k = 0; k < 3; ++k)
      o << m[k] << ",";
    key = o.str();
    // LazyArray never destroys: the user must
    for (int k = 0; k < 3; ++k)
      if (m[k] >= 0)
        a.destroy(k);
  }
  check_live(C, "destruction", 0);
  // zero-sized array
  galois::LazyArray<Elem, 0> z;
  if (z.size() != 0 || !z.empty() || z.begin() != z.end())
    sx::fail("LazyArray<0>:size", "size()=%zu empty()=%d", z.size(),
             (int)z.empty());
  sx::outcome(sx::hash_str(key));
  return key;
}

// LazyObject<Elem>
static const char* const LO_OPS[] = {"construct(const&0)", "construct(2)",
                                     "construct(&&1)", "destroy", "get()=3"};
static const int LO_NOPS = 5;
inline std::string lo_run(const std::vector<int>& hist) {
  const std::string C = "LazyObject";
  reg().reset();
  int m = -1;
  {
    galois::LazyObject<Elem> o;
    const galois::LazyObject<Elem>& co = o;
    for (int op : hist) {
      const char* nm = LO_OPS[op];
      if (op <= 2 && m < 0) {
        if (op == 0) {
          Elem x(0);
          o.construct(x);
          m = 0;
        } else if (op == 1) {
          o.construct(2);
          m = 2;
        } else {
          o.construct(Elem(1));
          m = 1;
        }
      } else if (op == 3 && m >= 0) {
        o.destroy();
        m = -1;
      } else if (op == 4 && m >= 0) {
        o.get() = Elem(3);
        m       = 3;
      }
      check_live(C, nm, m >= 0 ? 1 : 0);
      if (&o.get() != &co.get())
        sx::fail(C + ":get", "after %s: const and non-const get() differ", nm);
      if (m >= 0 && (bad_obj(o.get()) || o.get().v != m || co.get().v != m))
        sx::fail(C + ":get", "after %s: get() = %d, reference %d", nm,
                 o.get().v, m);
      if (m >= 0)
        sx::mark_nontrivial(); // the object was alive
    }
    if (m >= 0)
      o.destroy();
  }
  check_live(C, "destruction", 0);
  sx::outcome(m + 2);
  return std::to_string(m);
}

// ===========================================================================
// optional<Elem> against std::optional<int>; two objects a and b
// ===========================================================================
static const char* const OPT_OPS[] = {
    "a=0", "a=1", "a=b", "b=a", "a=a", "a=optional()", "a.assign(2)",
    "b=optional(a) [copy-construct]", "b=optional(Elem(1)) [value-construct]",
    "*a=3 (if engaged)"};
static const int OPT_NOPS = 10;
inline std::string opt_run(const std::vector<int>& hist) {
  const std::string C = "optional";
  reg().reset();
  typedef galois::optional<Elem> O;
  std::string key;
  {
    std::unique_ptr<O> a(new O()), b(new O());
    std::optional<int> ma, mb;
    auto check1 = [&](const char* after, const char* which, O& o,
                      const std::optional<int>& m) {
      const O& co = o;
      bool conv   = o ? true : false;
      if (o.is_initialized() != m.has_value() || conv != m.has_value())
        sx::fail(C + ":engaged", "after %s: %s.is_initialized()/bool = %d/%d, "
                                 "reference %d",
                 after, which, (int)o.is_initialized(), (int)conv,
                 (int)m.has_value());
      if (m) {
        if (bad_obj(o.get()) || o.get().v != *m || (*o).v != *m ||
            o->v != *m || co.get().v != *m || (*co).v != *m || co->v != *m)
          sx::fail(C + ":value", "after %s: %s holds %d, reference %d", after,
                   which, o.get().v, *m);
      }
    };
    auto check = [&](const char* after) {
      check_live(C, after, (long)ma.has_value() + (long)mb.has_value());
      check1(after, "a", *a, ma);
      check1(after, "b", *b, mb);
    };
    check("construction");
    for (int op : hist) {
      const char* nm = OPT_OPS[op];
      switch (op) {
      case 0:
      case 1: {
        Elem x(op);
        *a = x;
        ma = op;
      } break;
      case 2:
        *a = *b;
        ma = mb;
        break;
      case 3:
        *b = *a;
        mb = ma;
        break;
      case 4:
        *a = *a;
        break;
      case 5:
        *a = O();
        ma.reset();
        break;
      case 6: {
        Elem x(2);
        a->assign(x);
        ma = 2;
      } break;
      case 7:
        b.reset(new O(*a));
        mb = ma;
        break;
      case 8: {
        Elem x(1);
        b.reset(new O(x));
        mb = 1;
      } break;
      case 9:
        if (ma) {
          **a = Elem(3);
          ma  = 3;
        }
        break;
      }
      check(nm);
      if (ma && mb)
        sx::mark_nontrivial(); // both engaged: assignment took the assign path
    }
    key = (ma ? std::to_string(*ma) : "-") + "/" + (mb ? std::to_string(*mb) : "-");
  }
  check_live(C, "destruction", 0);
  sx::outcome(sx::hash_str(key));
  return key;
}

// ===========================================================================
// Pair / TupleOfThree (CopyableTuple.h): hold what they were given, copy like
// std::pair / std::tuple, members contiguous in declaration order.
// ===========================================================================
inline void tuple_run(uint64_t idx, bool) {
  reg().reset();
  int a = idx % 3, b = (idx / 3) % 3, c = (idx / 9) % 3;
  {
    galois::Pair<int, Elem> p(a, Elem(b));
    std::pair<int, int> rp(a, b);
    if (p.first != rp.first || p.second.v != rp.second || bad_obj(p.second))
      sx::fail("Pair:members", "Pair(%d,%d) holds (%d,%d)", a, b, p.first,
               p.second.v);
    galois::Pair<int, Elem> q(p), d;
    d = p;
    if (q.second.v != b || d.second.v != b || d.first != a || q.first != a ||
        bad_obj(q.second) || bad_obj(d.second) || bad_obj(p.second))
      sx::fail("Pair:copy", "copy of Pair(%d,%d) differs", a, b);
    galois::TupleOfThree<Elem, int, Elem> t(Elem(a), b, Elem(c));
    galois::TupleOfThree<Elem, int, Elem> u(t);
    if (t.first.v != a || t.second != b || t.third.v != c || u.first.v != a ||
        u.second != b || u.third.v != c || bad_obj(t.first) ||
        bad_obj(t.third) || bad_obj(u.first) || bad_obj(u.third))
      sx::fail("TupleOfThree:members", "TupleOfThree(%d,%d,%d) differs", a, b,
               c);
    check_live("CopyableTuple", "construction and copies", 3 + 4);
    galois::Pair<int, int> pi(a, b);
    galois::TupleOfThree<int, int, int> ti(a, b, c);
    if (sizeof(pi) != 2 * sizeof(int) || sizeof(ti) != 3 * sizeof(int) ||
        (char*)&pi.second - (char*)&pi.first != (long)sizeof(int) ||
        (char*)&ti.third - (char*)&ti.first != 2 * (long)sizeof(int))
      sx::fail("CopyableTuple:layout", "members are not contiguous");
  }
  check_live("CopyableTuple", "destruction", 0);
  if (a != b && b != c)
    sx::mark_nontrivial(); // members distinguishable
  sx::outcome(idx);
}

} // namespace c14
#endif

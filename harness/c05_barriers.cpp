// C05: barriers separate phases, never deadlock, are reusable and
// re-initialisable.  Engine E1 (gsched).  DESIGN.md section 7/C05.
#include "gsched.h"

#include "galois/Galois.h"
#include "galois/substrate/Barrier.h"

#include <memory>
#include <string>
#include <vector>

using galois::substrate::Barrier;

enum { ENTER = 1, EXIT = 2 };

static std::unique_ptr<Barrier> make(const std::string& kind, unsigned p) {
  using namespace galois::substrate;
  if (kind == "topo")
    return createTopoBarrier(p);
  if (kind == "counting")
    return createCountingBarrier(p);
  if (kind == "mcs")
    return createMCSBarrier(p);
  if (kind == "dissemination")
    return createDisseminationBarrier(p);
  if (kind == "pthread")
    return createPthreadBarrier(p);
  if (kind == "simple")
    return createSimpleBarrier(p);
  return nullptr;
}

// oracle over the ledger: for every phase id, every EXIT comes after every
// ENTER of that phase id, and every participant has both.
VF_NOINSTR static void check_phases(const std::string& tag, int region,
                                    unsigned P, int K) {
  int n = vf_log_count();
  for (int k = 0; k < K; ++k) {
    int phase      = region * 100 + k;
    int last_enter = -1, first_exit = n + 1;
    unsigned enters = 0, exits = 0;
    for (int i = 0; i < n; ++i) {
      const vf_log_entry* e = vf_log_get(i);
      if (e->b != phase)
        continue;
      if (e->kind == ENTER) {
        enters++;
        last_enter = i;
      } else if (e->kind == EXIT) {
        exits++;
        if (i < first_exit)
          first_exit = i;
      }
    }
    if (enters != P || exits != P)
      vf_fail((tag + ":missing-participant").c_str(),
              "region %d phase %d: %u enters / %u exits for %u participants",
              region, k, enters, exits, P);
    if (first_exit < last_enter) {
      const vf_log_entry* x = vf_log_get(first_exit);
      const vf_log_entry* e = vf_log_get(last_enter);
      vf_fail((tag + ":phase-overtaken").c_str(),
              "region %d phase %d: thread %ld left its wait (ledger #%d) "
              "before thread %ld entered (ledger #%d)",
              region, k, x->a, first_exit, e->a, last_enter);
    }
  }
}

static void run_region(Barrier& b, int region, unsigned P, int K) {
  galois::on_each([&](unsigned tid, unsigned) {
    for (int k = 0; k < K; ++k) {
      vf_log(ENTER, tid, region * 100 + k);
      b.wait();
      vf_log(EXIT, tid, region * 100 + k);
    }
  });
}

static void barrier_case(std::string kind, std::vector<int> topo, unsigned P,
                         int K, unsigned P2, int K2) {
  vf_set_topology(topo.data(), (int)topo.size());
  galois::SharedMemSys G;
  std::string tag = "barrier=" + kind;
  vf_tag(tag.c_str());
  galois::setActiveThreads(P);
  std::unique_ptr<Barrier> own;
  Barrier* b;
  if (kind == "system") {
    b = &galois::substrate::getBarrier(P);
  } else {
    own = make(kind, P);
    b   = own.get();
  }
  vf_window_begin();
  run_region(*b, 0, P, K);
  vf_window_end();
  check_phases(tag, 0, P, K);
  if (P2) {
    galois::setActiveThreads(P2);
    if (kind == "system")
      b = &galois::substrate::getBarrier(P2);
    else
      b->reinit(P2);
    vf_window_begin();
    run_region(*b, 1, P2, K2);
    vf_window_end();
    check_phases(tag + ":after-reinit", 1, P2, K2);
  }
  vf_outcome(vf_log_count());
  vf_finish();
}

static std::string topo_str(const std::vector<int>& t) {
  std::string s = "[";
  for (size_t i = 0; i < t.size(); ++i)
    s += (i ? "," : "") + std::to_string(t[i]);
  return s + "]";
}

int main(int argc, char** argv) {
  std::vector<VfCase> cases;
  const char* kinds[] = {"topo",    "counting", "mcs",   "dissemination",
                         "pthread", "simple",   "system"};
  auto add = [&](std::string kind, std::vector<int> topo, unsigned P, int K,
                 unsigned P2, int K2, int qb, int tb) {
    VfCase c;
    c.name = "barrier=" + kind + " topo=" + topo_str(topo) +
             " P=" + std::to_string(P) + " K=" + std::to_string(K);
    if (P2)
      c.name += " reinit=" + std::to_string(P2) + "x" + std::to_string(K2);
    // quick tier: two deviations wherever at most three threads take part
    // (measured: the whole tier stays under two minutes), one otherwise
    c.quick_bound    = (qb == 1 && P <= 3 && P2 <= 3) ? 2 : qb;
    c.thorough_bound = (tb == 2 && P <= 3 && P2 <= 3) ? 3 : tb;
    c.body = [=]() { barrier_case(kind, topo, P, K, P2, K2); };
    cases.push_back(c);
  };
  for (const char* k : kinds) {
    std::string kind = k;
    add(kind, {1}, 1, 2, 0, 0, 0, 0);
    add(kind, {2}, 2, 3, 0, 0, 1, 3);
    add(kind, {3}, 3, 3, 0, 0, 1, 2);
    add(kind, {4}, 4, 2, 0, 0, -1, 2);
    // reinit to a different count between regions (both directions), after
    // an EVEN and after an ODD number of waits (sense-reversing barriers keep
    // per-thread flags whose parity survives a careless reinit), and reinit to
    // the SAME count
    add(kind, {3}, 3, 2, 2, 2, 1, 2);
    add(kind, {3}, 2, 2, 3, 2, 1, 2);
    add(kind, {3}, 3, 1, 2, 2, 1, 2);
    add(kind, {3}, 2, 3, 3, 1, 1, 2);
    add(kind, {2}, 2, 1, 2, 2, 1, 3);
    if (kind == "topo" || kind == "system") {
      add(kind, {1, 1}, 2, 3, 0, 0, 1, 3);
      add(kind, {2, 1}, 3, 3, 0, 0, 1, 2);
      // a non-leader thread on a NON-ROOT socket (its leader and the parent
      // socket's leader both release it)
      add(kind, {1, 2}, 3, 3, 0, 0, 1, 2);
      add(kind, {1, 2}, 3, 1, 2, 2, 1, 2);
      add(kind, {2, 2}, 4, 2, 0, 0, 1, 2);
      add(kind, {1, 1, 1, 1}, 4, 2, 0, 0, -1, 2);
      add(kind, {2, 1}, 3, 2, 2, 2, 1, 2);
      add(kind, {1, 1, 1}, 2, 2, 3, 2, 1, 2);
    }
  }
  return vf_main(argc, argv, "C05", cases);
}

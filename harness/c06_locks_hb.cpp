// C06: locks exclude; every promised synchronisation edge is happens-before.
// Engine E1 (gsched) with vector-clock HB tracking honouring declared memory
// orders (DESIGN.md 2.4, 7/C06).
#include "fe_common.h"

#include "galois/substrate/Barrier.h"
#include "galois/substrate/PaddedLock.h"
#include "galois/substrate/PtrLock.h"
#include "galois/substrate/SimpleLock.h"
#include "galois/substrate/ThreadRWlock.h"

#include <atomic>
#include <memory>

FeState fe;

using namespace galois::substrate;

// ---- engine-invisible critical-section accounting -------------------------
static int g_writers, g_readers;
static std::string g_tag;
VF_NOINSTR static void cs_enter(bool writer) {
  if (writer) {
    if (g_writers || g_readers)
      vf_note_fail((g_tag + ":mutual-exclusion").c_str(),
                   "writer entered with %d writers and %d readers inside",
                   g_writers, g_readers);
    g_writers++;
  } else {
    if (g_writers)
      vf_note_fail((g_tag + ":mutual-exclusion").c_str(),
                   "reader entered with a writer inside");
    g_readers++;
  }
}
VF_NOINSTR static void cs_exit(bool writer) {
  if (writer)
    g_writers--;
  else
    g_readers--;
}

static long probe_data;         // plain data protected by the lock under test
static std::atomic<int> bystander; // a visible op inside the critical section

// "yieldy" drivers give the processor away inside the critical section and
// right after releasing the lock.  That costs no deviation, so histories in
// which a slow-path waiter loses the race for the lock several times in a row
// (holder re-acquires while the waiter sits between its spin-load and its
// CAS) come within a small deviation bound.
static bool g_yieldy;
static void critical(bool writer) {
  cs_enter(writer);
  if (g_yieldy)
    galois::substrate::asmPause();
  if (writer)
    probe_data = probe_data * 3 + 1; // plain read+write
  else
    (void)*(volatile long*)&probe_data; // plain-ish read (see below)
  bystander.fetch_add(1, std::memory_order_relaxed); // scheduling point
  if (writer)
    probe_data += 1;
  cs_exit(writer);
}
static long read_probe() { return probe_data; }

// ---- lock adapters ----------------------------------------------------------
struct SimpleA {
  SimpleLock l;
  void lock() { l.lock(); }
  bool try_lock() { return l.try_lock(); }
  void unlock(int) { l.unlock(); }
};
struct PaddedA {
  PaddedLock<true> l;
  void lock() { l.lock(); }
  bool try_lock() { return l.try_lock(); }
  void unlock(int) { l.unlock(); }
};
static int ptr_targets[4];
struct PtrA {
  PtrLock<int> l;
  void lock() { l.lock(); }
  bool try_lock() { return l.try_lock(); }
  void unlock(int variant) {
    switch (variant % 3) {
    case 0:
      l.unlock();
      break;
    case 1:
      l.unlock_and_set(&ptr_targets[variant & 3]);
      break;
    default:
      l.unlock_and_clear();
      break;
    }
  }
};

// script: per thread a string over  L (lock), T (try_lock), each followed by
// critical section + unlock when acquired
template <typename A>
static void lock_case(std::string name, std::vector<int> topo,
                      std::vector<std::string> scripts, bool yieldy = false) {
  g_yieldy = yieldy;
  vf_set_topology(topo.data(), (int)topo.size());
  g_tag = "lock=" + name;
  vf_tag(g_tag.c_str());
  galois::SharedMemSys G;
  unsigned T = scripts.size();
  galois::setActiveThreads(T);
  static A lock;
  vf_probe(&probe_data, sizeof probe_data, ("lock=" + name + ":release->acquire").c_str());
  int got[8] = {0};
  vf_window_begin();
  galois::on_each([&](unsigned tid, unsigned) {
    const std::string& s = scripts[tid];
    for (size_t i = 0; i < s.size(); ++i) {
      bool have = false;
      if (s[i] == 'L') {
        lock.lock();
        have = true;
      } else if (s[i] == 'T') {
        have = lock.try_lock();
      }
      if (have) {
        got[tid]++;
        critical(true);
        lock.unlock((int)(tid + i));
        if (yieldy)
          galois::substrate::asmPause();
      }
    }
  });
  vf_window_end();
  // every lock() must have got in (try_lock may fail)
  uint64_t out = 0;
  for (unsigned t = 0; t < T; ++t) {
    int want = 0;
    for (char c : scripts[t])
      want += c == 'L';
    if (got[t] < want)
      vf_fail((g_tag + ":starved").c_str(), "thread %u got in %d of %d times",
              t, got[t], want);
    out = out * 5 + got[t];
  }
  vf_outcome(out);
  vf_finish();
}

static void rw_case(std::vector<int> topo, std::vector<std::string> scripts) {
  vf_set_topology(topo.data(), (int)topo.size());
  g_tag = "lock=ThreadRWlock";
  vf_tag(g_tag.c_str());
  galois::SharedMemSys G;
  unsigned T = scripts.size();
  galois::setActiveThreads(T);
  static ThreadRWlock* rw = new ThreadRWlock();
  vf_probe(&probe_data, sizeof probe_data, "lock=ThreadRWlock:release->acquire");
  vf_window_begin();
  galois::on_each([&](unsigned tid, unsigned) {
    for (char c : scripts[tid]) {
      if (c == 'R') {
        rw->readLock();
        cs_enter(false);
        long v = read_probe();
        bystander.fetch_add(1, std::memory_order_relaxed);
        if (read_probe() != v)
          vf_note_fail("lock=ThreadRWlock:reader-saw-write",
                       "data changed while a reader held the lock");
        cs_exit(false);
        rw->readUnlock();
      } else {
        rw->writeLock();
        critical(true);
        rw->writeUnlock();
      }
    }
  });
  vf_window_end();
  vf_outcome(probe_data);
  vf_finish();
}

// ---- barrier arrival -> departure -------------------------------------------
static long bprobe[8];
static void barrier_hb_case(std::string kind, std::vector<int> topo,
                            unsigned P, int K, unsigned P2 = 0) {
  vf_set_topology(topo.data(), (int)topo.size());
  std::string tag = "barrier=" + kind;
  vf_tag(tag.c_str());
  galois::SharedMemSys G;
  galois::setActiveThreads(P);
  std::unique_ptr<Barrier> own;
  Barrier* b;
  if (kind == "system")
    b = &getBarrier(P);
  else {
    if (kind == "topo")
      own = createTopoBarrier(P);
    else if (kind == "counting")
      own = createCountingBarrier(P);
    else if (kind == "mcs")
      own = createMCSBarrier(P);
    else if (kind == "dissemination")
      own = createDisseminationBarrier(P);
    else if (kind == "pthread")
      own = createPthreadBarrier(P);
    else
      own = createSimpleBarrier(P);
    b = own.get();
  }
  vf_probe(bprobe, sizeof bprobe, (tag + ":arrival->departure").c_str());
  vf_window_begin();
  galois::on_each([&](unsigned tid, unsigned) {
    for (int k = 1; k <= K; ++k) {
      bprobe[tid] = k; // plain write before the barrier
      b->wait();
      for (unsigned j = 0; j < P; ++j) // plain reads after it
        if (bprobe[j] < k)
          vf_note_fail((tag + ":stale-read").c_str(),
                       "thread %u read phase %ld of thread %u after barrier %d",
                       tid, bprobe[j], j, k);
      // separate the reads from the next round's writes; not after the last
      // round, so that the region consists of an ODD number of episodes
      // (sense-reversing barriers: parity matters for a later reinit)
      if (k < K || !P2)
        b->wait();
    }
  });
  vf_window_end();
  if (P2) {
    // the edge must also hold for the first waits after a re-initialisation
    // (to another participant count, after an odd number of episodes)
    galois::setActiveThreads(P2);
    if (kind == "system")
      b = &getBarrier(P2);
    else
      b->reinit(P2);
    for (auto& x : bprobe)
      x = 0;
    vf_window_begin();
    galois::on_each([&](unsigned tid, unsigned) {
      for (int k = 1; k <= 2; ++k) {
        bprobe[tid] = k;
        b->wait();
        for (unsigned j = 0; j < P2; ++j)
          if (bprobe[j] < k)
            vf_note_fail((tag + ":after-reinit:stale-read").c_str(),
                         "thread %u read phase %ld of thread %u after barrier "
                         "%d",
                         tid, bprobe[j], j, k);
        b->wait();
      }
    });
    vf_window_end();
  }
  vf_finish();
}

// ---- loop entry / exit --------------------------------------------------------
static long entry_probe;
static long exit_probe[8];
static void loop_hb_case(std::string loop, bool fast, std::vector<int> topo,
                         unsigned T) {
  vf_set_topology(topo.data(), (int)topo.size());
  std::string tag = "loop=" + loop + (fast ? ":fastmode" : "");
  vf_tag(tag.c_str());
  galois::SharedMemSys G;
  galois::setActiveThreads(T);
  if (fast)
    getThreadPool().burnPower(T);
  vf_probe(&entry_probe, sizeof entry_probe, (tag + ":entry").c_str());
  vf_probe(exit_probe, sizeof exit_probe, (tag + ":return").c_str());
  vf_window_begin();
  for (int round = 1; round <= 2; ++round) {
    entry_probe = round; // plain write before the region
    if (loop == "on_each") {
      galois::on_each([&](unsigned tid, unsigned) {
        exit_probe[tid] = entry_probe * 10 + tid; // plain read + plain write
      });
    } else if (loop == "do_all") {
      std::vector<int> v = {0, 1, 2, 3};
      galois::do_all(
          galois::iterate(v),
          [&](int i) {
            unsigned tid    = ThreadPool::getTID();
            exit_probe[tid] = entry_probe * 10 + i;
          },
          galois::steal(), galois::chunk_size<1>());
    } else {
      std::vector<int> v = {0, 1, 2, 3};
      galois::for_each(
          galois::iterate(v),
          [&](int i, auto&) {
            unsigned tid    = ThreadPool::getTID();
            exit_probe[tid] = entry_probe * 10 + i;
          },
          galois::no_pushes(), galois::disable_conflict_detection(),
          galois::wl<galois::worklists::PerSocketChunkFIFO<1>>());
    }
    long s = 0;
    for (unsigned t = 0; t < T; ++t)
      s += exit_probe[t]; // plain reads after return
    vf_outcome(s);
  }
  vf_window_end();
  if (fast)
    getThreadPool().beKind();
  vf_finish();
}

// ---- lockable hand-over and worklist push -> pop -----------------------------
static long payload[FE_MAXITEMS];
template <typename WL>
static void fe_hb_run(bool handover) {
  std::vector<int> init = {0, 1};
  if (handover) {
    galois::for_each(
        galois::iterate(init),
        [](int item, auto& ctx) {
          galois::runtime::acquire(&fe.obj[0], galois::MethodFlag::WRITE);
          fe.obj[0].value = fe.obj[0].value * 3 + item; // plain, lock-protected
          if (item < 2)
            ctx.push(item + 2);
        },
        galois::wl<WL>());
  } else {
    galois::for_each(
        galois::iterate(init),
        [](int item, auto& ctx) {
          if (item < 4) {
            payload[item + 2] = 100 + item; // plain write, then publish
            ctx.push(item + 2);
          }
          if (item >= 2 && payload[item] != 100 + item - 2) // plain read
            vf_note_fail("push->pop:stale-payload", "item %d read %ld", item,
                         payload[item]);
        },
        galois::disable_conflict_detection(), galois::wl<WL>());
  }
}

template <typename WL>
static void fe_hb_case(std::string wl, bool handover, std::vector<int> topo,
                       unsigned T) {
  vf_set_topology(topo.data(), (int)topo.size());
  std::string tag =
      (handover ? std::string("lockable-handover") : std::string("push->pop")) +
      ":wl=" + wl;
  vf_tag(tag.c_str());
  galois::SharedMemSys G;
  galois::setActiveThreads(T);
  if (handover)
    vf_probe(&fe.obj[0].value, sizeof(long), (tag + ":release->acquire").c_str());
  else
    vf_probe(payload, sizeof payload, tag.c_str());
  vf_window_begin();
  fe_hb_run<WL>(handover);
  vf_window_end();
  vf_outcome(fe.obj[0].value);
  vf_finish();
}

int main(int argc, char** argv) {
  using namespace galois::worklists;
  std::vector<VfCase> cases;
  auto add = [&](std::string name, int qb, int tb, std::function<void()> body,
                 int w = 1) {
    VfCase c;
    c.name           = name;
    c.quick_bound    = qb;
    c.thorough_bound = tb;
    c.body           = body;
    c.weight         = w;
    cases.push_back(c);
  };
  typedef std::vector<std::string> S;
  // mutual exclusion + release->acquire edges
  for (auto sc : {S{"LL", "LL"}, S{"LT", "TL"}, S{"L", "L", "L"},
                  S{"LT", "T", "L"}, S{"LLL", "L"}}) {
    std::string sn;
    for (auto& s : sc)
      sn += (sn.empty() ? "" : "/") + s;
    std::vector<int> topo = {(int)sc.size()};
    int tb                = sc.size() == 2 ? 3 : 2;
    add("lock=SimpleLock script=" + sn, 2, tb,
        [=]() { lock_case<SimpleA>("SimpleLock", topo, sc); });
    add("lock=PaddedLock script=" + sn, 1, tb,
        [=]() { lock_case<PaddedA>("PaddedLock", topo, sc); });
    add("lock=PtrLock script=" + sn, 2, tb,
        [=]() { lock_case<PtrA>("PtrLock", topo, sc); });
  }
  for (auto sc : {S{"LLL", "L"}, S{"LL", "L", "L"}}) {
    std::string sn;
    for (auto& s : sc)
      sn += (sn.empty() ? "" : "/") + s;
    std::vector<int> topo = {(int)sc.size()};
    int qb = sc.size() == 2 ? 2 : 1, tb = sc.size() == 2 ? 4 : 3;
    add("lock=SimpleLock yieldy script=" + sn, qb, tb,
        [=]() { lock_case<SimpleA>("SimpleLock", topo, sc, true); }, 2);
    add("lock=PtrLock yieldy script=" + sn, qb, tb,
        [=]() { lock_case<PtrA>("PtrLock", topo, sc, true); }, 2);
  }
  for (auto sc : {S{"WR", "RW"}, S{"W", "R", "R"}, S{"RW", "W"},
                  S{"R", "W", "W"}}) {
    std::string sn;
    for (auto& s : sc)
      sn += (sn.empty() ? "" : "/") + s;
    std::vector<int> topo = {(int)sc.size()};
    add("lock=ThreadRWlock script=" + sn, 1, 2, [=]() { rw_case(topo, sc); });
  }
  // barrier arrival -> departure
  for (const char* k : {"topo", "counting", "mcs", "dissemination", "pthread",
                        "simple", "system"}) {
    std::string kind = k;
    add("hb barrier=" + kind + " topo=[2] P=2", 1, 2,
        [=]() { barrier_hb_case(kind, {2}, 2, 2); });
    add("hb barrier=" + kind + " topo=[2,1] P=3", 0, 1,
        [=]() { barrier_hb_case(kind, {2, 1}, 3, 2); });
    add("hb barrier=" + kind + " topo=[1,2] P=2 K=1 reinit=3", 1, 2,
        [=]() { barrier_hb_case(kind, {1, 2}, 2, 1, 3); });
  }
  // loop entry / exit, normal and fast mode
  for (const char* l : {"on_each", "do_all", "for_each"})
    for (bool fast : {false, true}) {
      std::string loop = l;
      add("hb loop=" + loop + (fast ? " fastmode" : "") + " topo=[2] T=2", 1, 2,
          [=]() { loop_hb_case(loop, fast, {2}, 2); });
      add("hb loop=" + loop + (fast ? " fastmode" : "") + " topo=[2,1] T=3", 0,
          1, [=]() { loop_hb_case(loop, fast, {2, 1}, 3); });
    }
  // lockable hand-over and push -> pop per worklist family
#define WLCASE(NAME, TYPE)                                                     \
  add(std::string("hb push->pop wl=") + NAME + " topo=[2] T=2", 1, 2,          \
      [=]() { fe_hb_case<TYPE>(NAME, false, {2}, 2); });                       \
  add(std::string("hb push->pop wl=") + NAME + " topo=[1,1] T=2", 1, 2,        \
      [=]() { fe_hb_case<TYPE>(NAME, false, {1, 1}, 2); });                    \
  add(std::string("hb lockable-handover wl=") + NAME + " topo=[2] T=2", 1, 2,  \
      [=]() { fe_hb_case<TYPE>(NAME, true, {2}, 2); });
  typedef PerSocketChunkFIFO<1> C1;
  WLCASE("PerSocketChunkFIFO<1>", C1)
  WLCASE("PerSocketChunkLIFO<1>", PerSocketChunkLIFO<1>)
  WLCASE("ChunkFIFO<1>", ChunkFIFO<1>)
  WLCASE("ChunkLIFO<1>", ChunkLIFO<1>)
  WLCASE("PerThreadChunkFIFO<1>", PerThreadChunkFIFO<1>)
  WLCASE("PerThreadChunkLIFO<1>", PerThreadChunkLIFO<1>)
  WLCASE("FIFO", FIFO<>)
  WLCASE("GLIFO", GLIFO<>)
  typedef OrderedByIntegerMetric<FeIndexer, C1> Obim;
  WLCASE("OBIM", Obim)
  typedef BulkSynchronous<C1> Bs;
  WLCASE("BulkSynchronous", Bs)
  typedef LocalQueue<C1, GFIFO<int>> Lq;
  WLCASE("LocalQueue", Lq)
  return vf_main(argc, argv, "C06", cases);
}

#!/bin/sh
# ./run_all.sh quick|thorough [ids...]  -- runs every registered check, prints a summary
tier=${1:-quick}; shift
cd "$(dirname "$0")"; mkdir -p build/out
ids="$@"
[ -z "$ids" ] && ids=$(python3 -c "
import json;print(' '.join(c['property_id'] for c in json.load(open('MANIFEST.json'))['checks']))")
for id in $ids; do
  s=$(date +%s)
  ./check $id $tier > build/out/run_all_$id.log 2>&1
  rc=$?
  e=$(date +%s)
  echo "== $id $tier exit=$rc $((e-s))s  $(grep -E '^# '$id build/out/run_all_$id.log | tail -1)"
  grep -E "^VIOLATION|^KNOWN-FINDING|MACHINERY|ENGINE-ERROR" build/out/run_all_$id.log | cut -c1-200
done

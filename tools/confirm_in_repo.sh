#!/bin/sh
# tools/confirm_in_repo.sh <log> <patch.diff>...
# Baseline-test confirmation for seeded changes using /repo's own _build
# (incremental): applies the patches to /repo, rebuilds, runs the 68 stable
# baseline tests, ALWAYS reverts (git checkout -- .) and rebuilds clean.
log=$1; shift
cd /repo || exit 2
[ -z "$(git status --short --untracked-files=no)" ] || { echo "/repo not clean"; exit 2; }
trap 'git -C /repo checkout -q -- .' EXIT INT TERM
for p in "$@"; do git apply "$p" || { echo "patch $p does not apply"; exit 2; }; done
echo "== patches: $*" > $log
git diff --stat >> $log
echo "== build with patches" >> $log
cmake --build _build -j16 -- -k 0 2>&1 | grep -E "error|FAILED" | grep -v logging | head -20 >> $log
tests=$(paste -sd'|' /verif/tools/stable_tests.txt | sed 's/[][().+*]/\\&/g')
echo "== baseline tests with patches" >> $log
ctest --test-dir _build -j12 --timeout 900 -R "^($tests)\$" 2>&1 | tail -8 >> $log
git checkout -q -- .
echo "== rebuild clean" >> $log
cmake --build _build -j16 -- -k 0 2>&1 | grep -E "error|FAILED" | grep -v logging | head >> $log
grep -E "tests passed|tests failed" $log

#!/usr/bin/env python3
"""tools/tier_table.py FILE...: turns the '== Cxx tier exit=.. ..s  # Cxx tier:
N executions, ...' lines that run_all.sh prints into a markdown table (used for
DESIGN.md 11.6)."""
import re
import sys

rows = {}
for f in sys.argv[1:]:
    for line in open(f, errors="replace"):
        m = re.match(r"== (C\d+) (quick|thorough) exit=(\d+) (\d+)s\s+# \S+ "
                     r"\S+ (\d+) executions, (\d+) states, (\d+) transitions, "
                     r"exhaustive=(\w+), (\d+) new violations, (\d+) known",
                     line)
        if m:
            pid, tier = m.group(1), m.group(2)
            rows[(pid, tier)] = m.groups()[2:]
print("| id | tier | wall | executions | states | transitions | exhaustive "
      "| known findings printed | exit |")
print("|---|---|---|---|---|---|---|---|---|")
for (pid, tier) in sorted(rows):
    rc, wall, ex, st, tr, exh, nv, kn = rows[(pid, tier)]
    print("| %s | %s | %ss | %s | %s | %s | %s | %s | %s |" % (
        pid, tier, wall, ex, st, tr, "yes" if exh == "True" else "no (deadline)",
        kn, rc))

#!/bin/sh
# tools/detect_all.sh [tier]: run the registered check of every seeded change's
# property against a scratch worktree with that change applied; the verdict
# lines go to seeded/<dir>/detect.log.  Exit 0 iff every seed was reported.
tier=${1:-quick}
cd /verif
miss=0
for d in seeded/*/; do
  d=${d%/}; id=$(basename $d | cut -c1-3)
  echo "=== $d ($id, $tier) $(date +%T)"
  tools/try_seed.sh $d/patch.diff $id $tier > $d/detect.log 2>&1
  rc=$(grep -c "^VIOLATION" $d/detect.log)
  echo "    VIOLATION lines: $rc; $(grep '^exit=' $d/detect.log)"
  [ "$rc" -gt 0 ] || miss=$((miss+1))
done
echo "seeds not reported: $miss"
[ $miss -eq 0 ]

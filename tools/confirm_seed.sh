#!/bin/sh
# tools/confirm_seed.sh <worktree with _b build> <seed dir (patch.diff, build_and_run.sh)> 
# Confirms: patch applies + builds; the 68 baseline tests still pass with it;
# the demonstration fails with the patch and passes without it.
wt=$1; sd=$(readlink -f $2); log=$sd/confirm.log
cd $wt || exit 2
git checkout -q -- . ; git apply $sd/patch.diff || { echo "patch does not apply" | tee $log; exit 2; }
echo "== build with patch" > $log
cmake --build _b -j6 -- -k 0 >> $log 2>&1
tests=$(paste -sd'|' /verif/tools/stable_tests.txt | sed 's/[][().+*]/\\&/g')
echo "== baseline tests with patch" >> $log
ctest --test-dir _b -j4 --timeout 1500 -R "^($tests)\$" 2>&1 | tail -8 >> $log
echo "== demo WITH patch (expect non-zero)" >> $log
( cd $sd && timeout 900 bash ./build_and_run.sh ) >> $log 2>&1; echo "demo_with_patch_exit=$?" >> $log
git checkout -q -- .
echo "== rebuild clean" >> $log
cmake --build _b -j6 -- -k 0 >> $log 2>&1
echo "== demo WITHOUT patch (expect zero)" >> $log
( cd $sd && timeout 900 bash ./build_and_run.sh ) >> $log 2>&1; echo "demo_without_patch_exit=$?" >> $log
grep -E "tests passed|tests failed|demo_with" $log

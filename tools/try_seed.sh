#!/bin/sh
# tools/try_seed.sh <patch.diff> <ID> [quick|thorough]
# Runs the check for <ID> against a scratch worktree of /repo with the patch
# applied (never touches /repo or /verif/evidence); prints the verdict lines.
patch=$(readlink -f "$1"); id=$2; tier=${3:-quick}
wt=/tmp/wt_try_$$
git -C /repo worktree add -q --detach $wt HEAD || exit 2
if ! git -C $wt apply "$patch"; then echo "PATCH DOES NOT APPLY"; git -C /repo worktree remove --force $wt; exit 2; fi
cd /verif
VERIF_REPO=$wt VERIF_EVIDENCE_DIR=/verif/build/tmp/seed_ev VERIF_REPLAY_DIR=/verif/build/tmp/seed_replays ./check $id $tier > /verif/build/tmp/try_$$.log 2>&1
rc=$?
grep -E "^VIOLATION|^   key=|^KNOWN-FINDING|MACHINERY|ENGINE-ERROR|^# $id" /verif/build/tmp/try_$$.log | cut -c1-260 | head -30
echo "exit=$rc"
rm -f /verif/build/tmp/try_$$.log
git -C /repo worktree remove --force $wt
exit $rc

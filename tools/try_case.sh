#!/bin/sh
# tools/try_case.sh <patch.diff> <e1 harness name> <case regex> <bound>
# Targeted detection test: one gsched harness, selected cases, given bound,
# against a scratch worktree with the patch applied.
patch=$(readlink -f "$1"); h=$2; re=$3; b=$4
wt=/tmp/wt_case_$$
git -C /repo worktree add -q --detach $wt HEAD || exit 2
git -C $wt apply "$patch" || { echo "PATCH DOES NOT APPLY"; git -C /repo worktree remove --force $wt; exit 2; }
cd /verif
exe=$(VERIF_REPO=$wt python3 -c "
import sys; sys.path.insert(0,'/verif')
from vlib import build, props
import json
for pid,sp in props.PROPS.items():
    for part in sp['parts']:
        if part['harness']=='$h':
            print(build.build_e1_harness('$h', tuple(part.get('flags',())), tuple(part.get('extra_srcs',())), tuple(part.get('extra_inc',()))))
" | tail -1)
$exe --case "$re" --bound $b --replaydir /verif/build/tmp/seed_replays 2>&1 | grep -E "^CASE|^FOUND|^      |# done|ENGINE" | cut -c1-240
git -C /repo worktree remove --force $wt

#!/usr/bin/env python3
"""tools/make_seed_meta2.py: writes seeded/<dir>/meta.json for the seeds of the
second round (C12, C13, C14, C16) from the detection logs of tools/try_seed.sh
(build/tmp/det_<ID>.log, copied to seeded/<dir>/detect.log) and the combined
baseline confirmation (tools/confirm_in_repo.sh -> confirm.log)."""
import json
import os
import re
import shutil
import sys

HERE = os.path.dirname(os.path.dirname(os.path.abspath(__file__)))
SEEDS = {
    "C12": ("C12-partfromfile-edgedata-offset-drops-pad",
            "FileGraph::partFromFile computes the edge-data offset without the "
            "4-byte pad that version 1 inserts after an odd number of 32-bit "
            "destinations",
            "partFromFile (not fromFile) + format version 1 + edge data "
            "present + an ODD total edge count: every edge then reads the "
            "previous edge's data; destinations, counts and order stay right"),
    "C13": ("C13-binarysearch-weight-drops-plus-one",
            "divideNodesBinarySearch computes the total weight with numEdges "
            "instead of numEdges+1",
            "nodeWeight 0 (edge-balanced division), trailing zero-degree nodes "
            "(or no edges at all) and numEdges an exact multiple of the block "
            "count: the last piece stops short and leaves a gap"),
    "C14": ("C14-ring-iterator-decrement-unsigned-wrap",
            "FixedSizeRing::Iterator::decrement uses (cur - 1) % ChunkSize on "
            "an unsigned cursor",
            "a chunk size that is NOT a power of two + an iterator at physical "
            "slot 0 (full ring, or wrapped after a pop/push mix) + backward "
            "movement (rbegin/rend, --it, or the move_backward inside a middle "
            "emplace); the unit tests only use gdeque with 64-element chunks"),
    "C16": ("C16-partial-sum-floor-blocksize",
            "ParallelSTL::partial_sum sizes its blocks with floor instead of "
            "ceiling division (and the neighbouring assert was flipped)",
            "input of >= 1024 elements whose size is not a multiple of the "
            "number of active threads: the last size % threads outputs are "
            "never written"),
}
SEEDS_B = {
    "C09": ("C09-bumpwithmalloc-fallback-ignores-header",
            "BumpWithMallocHeap::allocate decides on the malloc fallback "
            "without counting the block header",
            "a request whose 8-aligned size lies in (AllocSize - sizeof(Block), "
            "AllocSize]: the block overruns its chunk by up to 8 bytes and the "
            "next refill's chunk header lands inside the live block"),
    "C11": ("C11-csr-transpose-edgedata-slot",
            "LC_CSR_Graph::transpose copies edge data from slot e_new instead "
            "of e",
            "transpose() on a graph with non-void, non-uniform edge data whose "
            "slots move; topology stays right; no unit test calls transpose()"),
    "C15": ("C15-reduce-merges-active-threads-only",
            "Reducible::reduce merges only min(getActiveThreads(), size) "
            "per-thread slots",
            "setActiveThreads() lowered between the parallel region and "
            "reduce(): partial values of the higher threads are dropped and "
            "leak into a later reduce()"),
    "C17": ("C17-linearseq-unaligned-double-advance",
            "gDeserializeLinearSeq advances the read cursor a second time on "
            "the unaligned (extract) path",
            "a non-empty POD vector read at a misaligned cursor and followed "
            "by more data in the same buffer"),
}


def main():
    global SEEDS
    if len(sys.argv) > 1 and sys.argv[1] == "b":
        SEEDS = SEEDS_B
    which = "C09+C11+C15+C17" if SEEDS is SEEDS_B else "C12+C13+C14+C16"
    confirm = os.path.join(HERE, "build/tmp/confirm_combined2.log" if SEEDS is SEEDS_B else "build/tmp/confirm_combined.log")
    ctext = open(confirm).read() if os.path.exists(confirm) else ""
    m = re.search(r"(\d+)% tests passed, (\d+) tests failed out of (\d+)", ctext)
    baseline = ("%s of %s stable tests failed (the four second-round patches "
                "%s applied TOGETHER to /repo, incremental build "
                "of /repo/_build, tools/confirm_in_repo.sh)" % (m.group(2), m.group(3), which)
                if m else "NOT RUN to completion: " + ctext[-300:])
    demo = json.load(open(os.path.join(HERE, "build/tmp/demo_exits.json")))
    for pid, (d, change, needs) in SEEDS.items():
        sd = os.path.join(HERE, "seeded", d)
        det = os.path.join(HERE, "build/tmp/det_%s.log" % pid)
        dtext = open(det).read() if os.path.exists(det) else ""
        if dtext:
            shutil.copy(det, os.path.join(sd, "detect.log"))
        if ctext:
            shutil.copy(confirm, os.path.join(sd, "confirm.log"))
        keys = sorted(set(re.findall(r"key=(.*?) case=", dtext)))
        ex = re.search(r"exit=(\d+)", dtext)
        summ = re.search(r"^# %s .*$" % pid, dtext, re.M)
        meta = {
            "property": pid,
            "change": change,
            "needs": needs,
            "origin": "independent sub-agent given only the property text and "
                      "a scratch worktree (nothing from /verif)",
            "confirmed": {
                "applies": True, "builds": True,
                "baseline_tests": baseline,
                "demo_with_patch": "exit %s" % demo[pid][0],
                "demo_without_patch": "exit %s" % demo[pid][1],
                "demo_command": "WT=<checkout> [B=<build dir>] ./build_and_run.sh",
            },
            "detection": {
                "before": "caught by the registered quick tier as it stood "
                          "(no change to the check was needed)" if keys else
                          "MISSED by the registered quick tier (see DESIGN.md 11.4)",
                "quick_tier_run": {
                    "command": "tools/try_seed.sh seeded/%s/patch.diff %s quick" % (d, pid),
                    "violation_lines": len(re.findall(r"^VIOLATION", dtext, re.M)),
                    "keys": keys,
                    "summary": summ.group(0) if summ else None,
                    "exit": ex.group(1) if ex else None,
                },
            },
        }
        json.dump(meta, open(os.path.join(sd, "meta.json"), "w"), indent=1)
        print(pid, meta["detection"]["quick_tier_run"]["exit"], len(keys), "keys")


if __name__ == "__main__":
    sys.exit(main())

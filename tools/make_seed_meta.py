#!/usr/bin/env python3
"""tools/make_seed_meta.py: (re)writes seeded/<dir>/meta.json from the seed's
README.md, confirm.log (tools/confirm_seed.sh) and detect.log
(tools/detect_all.sh).  Hand-written history of each seed (what the check
looked like when it missed it, what was added) is in NOTES below."""
import glob
import json
import os
import re

HERE = os.path.dirname(os.path.dirname(os.path.abspath(__file__)))

NOTES = {
    "C01-aborted-attempt-not-counted-as-work": dict(
        before="MISSED by ./check C01 quick: the 'abort-many' program backed "
               "off only twice, fewer than the two idle token rounds the "
               "change needs",
        after="caught on the base schedule (d=0) after 'abort-many' was made "
              "to back off 9 times while every other thread is idle"),
    "C01-stealall-stale-tail": dict(
        before="MISSED (quick and d=2 targeted run): no program made a "
               "robbed socket leader push another full chunk afterwards",
        after="caught on the base schedule after adding program 'late-push' "
              "(two initial items per thread, the second one creates two "
              "more) for every worklist on the two-socket topology [1,1]"),
    "C02-fast-pushback-with-aborts": dict(
        before="MISSED: no operator pushed more than 64 items before "
               "aborting",
        after="caught after adding program 'big-push' (70 pushes before the "
              "last acquire, then a voluntary abort)"),
    "C02-release-before-unlink": dict(
        before="caught only by the thorough tier (d=2, key ...:horizon / "
               "ownership-leaked-into-next-iteration); MISSED at d=1",
        after="caught at d=1 in the quick tier after adding programs "
              "'handoff' / 'handoff-abort': the second iteration takes the "
              "contended object as its SECOND object and pauses "
              "(asmPause, a scheduler yield) while owning both"),
    "C03-steal-size-stale": dict(
        before="MISSED: with blocks of <= 3 elements per thread a thief's "
               "stale 'half' can never exceed what is left by more than a "
               "chunk",
        after="caught at d=2 after adding do_all cases with 6-7 elements per "
              "thread (n=12 cs=1, n=14 cs=2) and a guard that reports values "
              "outside the range instead of indexing with them"),
    "C03-cascade-stale-subrange": dict(
        before="MISSED by quick: the only 4->2 thread-count change ran in "
               "the thorough tier; the ledger arrays overflowed at 4 "
               "regions",
        after="caught on the base schedule after on_each {4,2} moved into "
              "the quick tier"),
    "C04-globalterm-reset-only-in-init": dict(
        before="MISSED: the call-level BFS re-armed detectors only through "
               "getSystemTermination()",
        after="caught by c04_term_bfs after adding the 'rearm in place' "
              "operation (initializeThread on the same detector object) and "
              "by c04_termination's in-place re-arm case"),
    "C04-ring-black-only-with-token": dict(
        before="caught by the call-level BFS (c04_term_bfs) as soon as it "
               "ran on the change",
        after="unchanged"),
    "C05-counting-reinit-stale-sense": dict(
        before="MISSED by ./check C05 quick: every reinit case ran an EVEN "
               "number of phases before the reinit",
        after="caught at d<=1 after adding odd-phase and same-count reinit "
              "cases"),
    "C05-topo-rearm-after-wakeup": dict(
        before="MISSED: no case had two threads on a non-root socket",
        after="caught after adding topologies [1,2] and [2,2]"),
    "C06-slowlock-stale-cas-expected": dict(
        before="MISSED at d<=2: needs the lock to change hands twice inside "
               "one slow_lock call",
        after="caught at d=2 after adding 'yieldy' lock scripts (LLL/L, "
              "LL/L/L) whose holders pause inside the critical section"),
    "C06-topo-reinit-keeps-parentsense": dict(
        before="MISSED: reinit always followed an even number of episodes",
        after="caught on the base schedule after adding odd-episode barrier "
              "regions before reinit"),
    "C08-obim-barrier-scanstart": dict(
        before="MISSED: no 3-thread one-socket program had helpers that "
               "last popped at a later level create work of a level in "
               "between",
        after="caught at d=1 after adding program 'help-mid' on topology "
              "[3]"),
    "C08-bulksync-some-reset-late": dict(
        before="MISSED: in every program thread 0 had work in every round",
        after="caught at d=1 after adding program 'side-chain' (thread 0 "
              "starts with a leaf, the other thread with a chain)"),
    "C10-addedge-writes-before-owning-dst": dict(
        before="MISSED: every iteration acquired both end points before "
               "calling addEdge",
        after="caught at d=1 after adding bare single-call iterations "
              "(ADD_EDGE_BARE: the graph call is the only thing that "
              "acquires)"),
    "C10-reverse-erase-unsorts": dict(
        before="caught by the sequential history BFS (c10_morph_seq) as soon "
               "as it ran on the change",
        after="unchanged"),
}


def section(text, heads):
    out, on = [], False
    for line in text.splitlines():
        if line.startswith("## "):
            on = any(line[3:].lower().startswith(h) for h in heads)
            continue
        if on:
            out.append(line)
    return "\n".join(out).strip()


def main():
    for d in sorted(glob.glob(os.path.join(HERE, "seeded", "*", ""))):
        name = os.path.basename(os.path.dirname(d))
        readme = open(os.path.join(d, "README.md")).read()
        title = readme.splitlines()[0].lstrip("# ").strip()
        needs = section(readme, ("what it needs", "needs", "what is needed"))
        needs = re.sub(r"\s+", " ", needs)[:900]
        conf = {}
        cl = os.path.join(d, "confirm.log")
        if os.path.exists(cl):
            t = open(cl, errors="replace").read()
            m = re.search(r"(\d+)% tests passed, (\d+) tests failed out of "
                          r"(\d+)", t)
            conf = dict(
                applies=True, builds=True,
                baseline_tests=("%s of %s stable tests failed with the patch"
                                % (m.group(2), m.group(3))) if m else
                "see confirm.log",
                demo_with_patch="exit " + (re.search(
                    r"demo_with_patch_exit=(\d+)", t) or [0, "?"])[1],
                demo_without_patch="exit " + (re.search(
                    r"demo_without_patch_exit=(\d+)", t) or [0, "?"])[1])
        det = dict(NOTES.get(name, {}))
        dl = os.path.join(d, "detect.log")
        if os.path.exists(dl):
            t = open(dl, errors="replace").read()
            keys = re.findall(r"^   key=(\S+)", t, re.M)
            det["quick_tier_run"] = dict(
                command="tools/try_seed.sh seeded/%s/patch.diff %s quick" %
                        (name, name[:3]),
                violation_lines=len(re.findall(r"^VIOLATION", t, re.M)),
                keys=sorted(set(keys))[:12],
                exit=(re.search(r"^exit=(\d+)", t, re.M) or [0, "?"])[1])
        meta = dict(property=name[:3], change=title, needs=needs,
                    origin="independent sub-agent given only the property "
                           "text and a scratch worktree",
                    confirmed=conf, detection=det)
        json.dump(meta, open(os.path.join(d, "meta.json"), "w"), indent=1)
        print(name, "ok" if conf else "NO confirm.log",
              det.get("quick_tier_run", {}).get("violation_lines"))


if __name__ == "__main__":
    main()

"""CMake+Ninja build of the Lonestar CPU applications (check C20).

app_build() configures /repo's CURRENT WORKING TREE out of source into
/verif/build/cmake-apps-<hash> with -DCMAKE_BUILD_TYPE=Release (assertions off,
as shipped) and builds only the application targets C20 runs (plus
graph-convert).  <hash> covers every file under libgalois libsupport lonestar
tools cmake and the top-level CMakeLists.txt, so an untouched tree rebuilds
nothing and any change there yields a fresh build directory.  /repo/_build is
never read or written; TMPDIR points into /verif/build/tmp for the duration of
the build so nothing is left under /tmp.

`ninja -k 0` keeps going after a failing target: a target that does not build
is listed in res["failed"] and its app is skipped by the check (reported, not
an alarm).  A configure failure, or no target at all, is a machinery failure
(SystemExit(2)).
"""
import hashlib
import json
import os
import shutil
import subprocess
import sys
import time

from . import build

REPO = build.REPO
BUILD = build.BUILD
TMP = build.TMP

HASH_TREES = ["libgalois", "libsupport", "lonestar", "tools", "cmake"]
HASH_FILES = ["CMakeLists.txt"]
# target -> directory (relative to the build tree) its executable lands in
TARGETS = {
    "bfs-cpu": "lonestar/analytics/cpu/bfs",
    "sssp-cpu": "lonestar/analytics/cpu/sssp",
    "connected-components-cpu": "lonestar/analytics/cpu/connected-components",
    "minimum-spanningtree-cpu": "lonestar/analytics/cpu/spanningtree",
    "triangle-counting-cpu": "lonestar/analytics/cpu/triangle-counting",
    "k-core-cpu": "lonestar/analytics/cpu/k-core",
    "pagerank-pull-cpu": "lonestar/analytics/cpu/pagerank",
    "pagerank-push-cpu": "lonestar/analytics/cpu/pagerank",
    "maximal-independentset-cpu": "lonestar/analytics/cpu/independentset",
    "maximum-cardinality-matching-cpu": "lonestar/analytics/cpu/matching",
    "preflowpush-cpu": "lonestar/analytics/cpu/preflowpush",
    "graph-convert": "tools/graph-convert",
}
CMAKE_ARGS = ["-DCMAKE_BUILD_TYPE=Release", "-DBUILD_TESTING=OFF"]
MAX_JOBS = 8

_cache = {}


def app_tree_hash():
    if "h" in _cache:
        return _cache["h"]
    h = hashlib.sha256()
    h.update(" ".join(CMAKE_ARGS + sorted(TARGETS)).encode())
    for d in HASH_TREES:
        dd = os.path.join(REPO, d)
        for root, dn, fn in os.walk(dd):
            dn.sort()
            for f in sorted(fn):
                p = os.path.join(root, f)
                h.update(os.path.relpath(p, REPO).encode())
                h.update(b"\0")
                try:
                    with open(p, "rb") as fh:
                        h.update(fh.read())
                except OSError:
                    pass
                h.update(b"\0")
    for f in HASH_FILES:
        with open(os.path.join(REPO, f), "rb") as fh:
            h.update(f.encode())
            h.update(fh.read())
    _cache["h"] = h.hexdigest()[:20]
    return _cache["h"]


def _run(cmd, env, log):
    with open(log, "a") as lf:
        lf.write("$ " + " ".join(cmd) + "\n")
        lf.flush()
        r = subprocess.run(cmd, env=env, stdout=lf, stderr=subprocess.STDOUT)
    return r.returncode


def _fail(what, log):
    sys.stderr.write("APP BUILD FAILED (%s); tail of %s:\n" % (what, log))
    try:
        sys.stderr.write("".join(open(log, errors="replace").readlines()[-60:]))
    except OSError:
        pass
    raise SystemExit(2)


def _exe(bdir, tgt):
    return os.path.join(bdir, TARGETS[tgt], tgt)


def _prune(current, keep=1):
    """every tree state gets its own 350 MB build directory: after a cold
    build drop all but the `keep` most recent older ones."""
    import glob
    old = [d for d in glob.glob(os.path.join(BUILD, "cmake-apps-*"))
           if os.path.isdir(d) and d != current]
    old.sort(key=os.path.getmtime, reverse=True)
    for d in old[keep:]:
        shutil.rmtree(d, ignore_errors=True)


def app_build(verbose=True):
    """Returns dict(dir, hash, bins{target: path}, failed[target], cold,
    build_s, configure_s, compile_s, cold_build_s)."""
    if "res" in _cache:
        return _cache["res"]
    t0 = time.time()
    hh = app_tree_hash()
    bdir = os.path.join(BUILD, "cmake-apps-" + hh)
    stamp = os.path.join(bdir, "verif-app-build.json")
    if os.path.exists(stamp):
        res = json.load(open(stamp))
        if all(os.path.exists(p) for p in res["bins"].values()):
            res["cold"] = False
            res["build_s"] = round(time.time() - t0, 2)
            _cache["res"] = res
            return res
    # ---- cold build -----------------------------------------------------
    os.makedirs(TMP, exist_ok=True)
    tmpd = os.path.join(TMP, "appbuild-tmp-%d" % os.getpid())
    os.makedirs(tmpd, exist_ok=True)
    env = dict(os.environ, TMPDIR=tmpd, TMP=tmpd, TEMP=tmpd)
    # build in the final location (CMake caches absolute paths); a failed or
    # interrupted build has no stamp and is rebuilt from scratch next time
    if os.path.exists(bdir):
        shutil.rmtree(bdir)
    os.makedirs(bdir)
    log = os.path.join(bdir, "verif-app-build.log")
    if verbose:
        print("# appbuild: cold CMake build of %s into %s" % (REPO, bdir),
              flush=True)
    try:
        rc = _run(["cmake", "-G", "Ninja", "-S", REPO, "-B", bdir] + CMAKE_ARGS,
                  env, log)
        if rc != 0:
            _fail("configure", log)
        t1 = time.time()
        jobs = int(os.environ.get("VERIF_BUILD_JOBS", str(MAX_JOBS)))
        jobs = max(1, min(jobs, MAX_JOBS))
        rc = _run(["ninja", "-C", bdir, "-k", "0", "-j", str(jobs)] +
                  sorted(TARGETS), env, log)
        t2 = time.time()
    finally:
        shutil.rmtree(tmpd, ignore_errors=True)
    bins, failed = {}, []
    for tgt in sorted(TARGETS):
        p = _exe(bdir, tgt)
        if os.path.exists(p) and os.access(p, os.X_OK):
            bins[tgt] = p
        else:
            failed.append(tgt)
    if not bins:
        _fail("no target built (ninja exit %d)" % rc, log)
    res = dict(dir=bdir, hash=hh, bins=bins, failed=failed, ninja_exit=rc,
               jobs=jobs, configure_s=round(t1 - t0, 1),
               compile_s=round(t2 - t1, 1), cold_build_s=round(t2 - t0, 1))
    with open(stamp + ".tmp", "w") as f:
        json.dump(res, f, indent=1)
    os.replace(stamp + ".tmp", stamp)
    res = dict(res, cold=True, build_s=round(time.time() - t0, 2))
    _cache["res"] = res
    _prune(bdir)
    if verbose:
        print("# appbuild: cold build done in %.1fs (configure %.1fs, "
              "compile %.1fs, -j%d); built %d targets%s" %
              (res["build_s"], res["configure_s"], res["compile_s"], jobs,
               len(bins), ("; NOT built: " + " ".join(failed)) if failed
               else ""), flush=True)
    return res


if __name__ == "__main__":
    r = app_build()
    print(json.dumps(r, indent=1))

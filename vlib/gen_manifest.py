"""Regenerates /verif/MANIFEST.json from vlib/props.py (claimed checks) and
properties.jsonl (everything else -> not_applicable with a reason)."""
import json
import os
import subprocess
import sys

HERE = os.path.dirname(os.path.dirname(os.path.abspath(__file__)))
sys.path.insert(0, HERE)
from vlib import props  # noqa


def main():
    allp = [json.loads(l) for l in open(os.path.join(HERE, "properties.jsonl"))]
    try:
        commits = subprocess.run(
            ["git", "-C", "/repo", "log", "--format=%H %s"],
            stdout=subprocess.PIPE, text=True).stdout.splitlines()
        hook_commits = [c.split()[0] for c in commits if "verif hook" in c]
    except Exception:
        hook_commits = []
    checks = []
    for pid, spec in sorted(props.PROPS.items()):
        if spec.get("unclaimed"):
            continue
        checks.append(dict(
            property_id=pid,
            quick_cmd="./check %s quick" % pid,
            thorough_cmd="./check %s thorough" % pid,
            evidence_file="/verif/evidence/%s.json" % pid,
            replay_cmd_template="./check %s --replay {path}" % pid,
            engine=spec.get("engine_name", "gsched"),
            level_claimed=dict(category=spec.get("level", "model_checking"),
                               text=spec["level_text"],
                               design_ref=spec.get("design_ref", "DESIGN.md 7")),
            level_note=spec["level_note"],
            technique=spec["technique"],
        ))
    na = []
    for p in allp:
        if p["id"] in props.PROPS and not props.PROPS[p["id"]].get("unclaimed"):
            continue
        reason = props.NOT_APPLICABLE.get(
            p["id"], "check not built yet (see DESIGN.md section 10)")
        na.append(dict(property_id=p["id"], reason=reason))
    m = dict(
        version=1,
        setup_cmd="./setup.sh",
        hooks=dict(
            guard="GALOIS_VERIF",
            enable="checks compile /repo's working tree themselves with "
                   "-DGALOIS_VERIF (vlib/build.py); no CMake option needed",
            baseline_off_cmd="cmake -G Ninja -S /repo -B /repo/_build && "
                             "cmake --build /repo/_build -- -k 0; ctest --test-dir "
                             "/repo/_build -j8 --timeout 900",
            source_commits=hook_commits,
            add_only=True),
        engines=[
            dict(name="gsched", path="engine/",
                 serves_properties=sorted(
                     k for k, v in props.PROPS.items()
                     if any(p["engine"] == "e1" for p in v["parts"])),
                 kind_free_text="stateless schedule explorer over the real "
                 "runtime: TSan compiler ABI + libc interposition + futex "
                 "hand-off, iterative deviation bounding, fingerprint "
                 "pruning, vector-clock happens-before"),
            dict(name="seqx", path="seqx/",
                 serves_properties=sorted(
                     k for k, v in props.PROPS.items()
                     if any(p["engine"] == "e2" for p in v["parts"])),
                 kind_free_text="explicit-state BFS over operation histories "
                 "and bounded-exhaustive input enumeration on the real code "
                 "under ASan, against reference models"),
            dict(name="appx", path="harness/c20_apps.py",
                 serves_properties=["C20"] if "C20" in props.PROPS else [],
                 kind_free_text="bounded-exhaustive input x algorithm-variant "
                 "x thread-count enumeration over the real application "
                 "binaries (built with CMake from the working tree) against "
                 "independent Python references; schedules uncontrolled"),
            dict(name="mpix", path="harness/e4_driver.py",
                 serves_properties=sorted(
                     k for k in ("C18", "C19") if k in props.PROPS),
                 kind_free_text="bounded-exhaustive graph x policy x option "
                 "x host-count enumeration on the real CuSP / Gluon code "
                 "over real MPI processes (mpirun -np 1..4), structural "
                 "oracle computed from the input; arrival order "
                 "uncontrolled"),
        ],
        checks=checks,
        not_applicable=na,
        notes="All checks rebuild Galois from /repo's working tree into a "
              "content-addressed cache under /verif/build. See DESIGN.md.",
    )
    json.dump(m, open(os.path.join(HERE, "MANIFEST.json"), "w"), indent=1)
    print("MANIFEST: %d checks, %d not_applicable" % (len(checks), len(na)))


if __name__ == "__main__":
    main()

import sys, os
sys.path.insert(0, os.path.dirname(os.path.dirname(os.path.abspath(__file__))))
from vlib import build, props
import importlib, runpy
# pull in the check driver's build_part without running it
import importlib.machinery, importlib.util
loader = importlib.machinery.SourceFileLoader("checkdrv", os.path.join(build.VERIF, "check"))
spec = importlib.util.spec_from_loader("checkdrv", loader)
mod = importlib.util.module_from_spec(spec)
loader.exec_module(mod)
n = 0
for pid, sp in sorted(props.PROPS.items()):
    for part in sp["parts"]:
        mod.build_part(part)
        n += 1
print("warmed", n, "harness builds")

# the CMake-built parts (graph-convert for C12, the Lonestar apps for C20, the
# distributed libraries + MPI harnesses for C18/C19): warm their caches too so
# that the first quick run does not pay for a cold build.  Failures here are
# not fatal: the checks build what they need themselves.
import subprocess
try:
    from vlib import appbuild, distbuild
    r = appbuild.app_build()
    print("warmed app build", r["dir"])
    for h in ("c19_partition", "c18_gluon"):
        exe, _res = distbuild.build_dist_harness(h, ("-fno-access-control",))
        print("warmed", exe)
    loader = importlib.machinery.SourceFileLoader(
        "c12conv", os.path.join(build.VERIF, "harness", "c12_convert.py"))
    spec = importlib.util.spec_from_loader("c12conv", loader)
    m12 = importlib.util.module_from_spec(spec)
    loader.exec_module(m12)
    print("warmed", m12.tool_build())
except SystemExit as e:
    print("warm-up of CMake-built parts stopped:", e)
except Exception as e:  # noqa: BLE001
    print("warm-up of CMake-built parts failed (checks build on demand):", e)

import sys, os
sys.path.insert(0, os.path.dirname(os.path.dirname(os.path.abspath(__file__))))
from vlib import build, props
import importlib, runpy
# pull in the check driver's build_part without running it
import importlib.machinery, importlib.util
loader = importlib.machinery.SourceFileLoader("checkdrv", os.path.join(build.VERIF, "check"))
spec = importlib.util.spec_from_loader("checkdrv", loader)
mod = importlib.util.module_from_spec(spec)
loader.exec_module(mod)
n = 0
for pid, sp in sorted(props.PROPS.items()):
    for part in sp["parts"]:
        mod.build_part(part)
        n += 1
print("warmed", n, "harness builds")

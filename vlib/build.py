"""Build support: compiles Galois sources from /repo's *working tree* into a
content-addressed object cache under /verif/build, and links harnesses.

Nothing here reads /repo/_build.  config.h / Version.cpp are generated from the
templates in the tree.
"""
import hashlib
import os
import subprocess
import sys
import concurrent.futures as cf

REPO = os.environ.get("VERIF_REPO", "/repo")
VERIF = os.path.dirname(os.path.dirname(os.path.abspath(__file__)))
BUILD = os.path.join(VERIF, "build")
OBJ = os.path.join(BUILD, "obj")
GEN = os.path.join(BUILD, "gen")
BIN = os.path.join(BUILD, "bin")
TMP = os.path.join(BUILD, "tmp")

INC_DIRS = [
    "libgalois/include",
    "libsupport/include",
    "libdist/include",
    "libgluon/include",
    "libcusp/include",
]

# sources of libgalois that every harness links
GALOIS_SRCS = [
    "Barrier_Counting.cpp", "Barrier.cpp", "Barrier_Dissemination.cpp",
    "Barrier_MCS.cpp", "Barrier_Pthread.cpp", "Barrier_Simple.cpp",
    "Barrier_Topo.cpp", "Context.cpp", "Deterministic.cpp",
    "DynamicBitset.cpp", "EnvCheck.cpp", "FileGraph.cpp",
    "FileGraphParallel.cpp", "gIO.cpp", "GraphHelpers.cpp", "HWTopo.cpp",
    "Mem.cpp", "NumaMem.cpp", "OCFileGraph.cpp", "PageAlloc.cpp",
    "PagePool.cpp", "ParaMeter.cpp", "PerThreadStorage.cpp", "PreAlloc.cpp",
    "Profile.cpp", "PtrLock.cpp", "SharedMem.cpp", "SharedMemSys.cpp",
    "SimpleLock.cpp", "Statistics.cpp", "Substrate.cpp", "Support.cpp",
    "Termination.cpp", "ThreadPool.cpp", "Threads.cpp", "ThreadTimer.cpp",
    "Timer.cpp", "Tracer.cpp", "HWTopoLinux.cpp",
]

COMMON0 = ["-std=c++17", "-DGALOIS_USE_SCHED_SETAFFINITY",
           "-DGALOIS_HAVE_PTHREAD", "-w"]
COMMON = COMMON0 + ["-DGALOIS_VERIF"]  # hooks on: only the gsched engine needs them

FLAVORS = {
    # engine E1: TSan compiler instrumentation only; we provide the runtime
    "tsan": dict(cxx="clang++", flags=COMMON + [
        "-O1", "-g", "-DNDEBUG", "-fsanitize=thread", "-fno-omit-frame-pointer",
        "-mllvm", "-tsan-distinguish-volatile=1",
        "-mllvm", "-tsan-instrument-func-entry-exit=0",
        "-mllvm", "-tsan-handle-cxx-exceptions=0"], link=[]),
    # engine E2: ASan, single threaded enumeration
    "asan": dict(cxx="g++", flags=COMMON0 + [
        "-O1", "-g", "-fsanitize=address", "-fno-omit-frame-pointer"],
        link=["-fsanitize=address"]),
    # like asan but with asserts off (shipped configuration)
    "asan_ndebug": dict(cxx="g++", flags=COMMON0 + [
        "-O1", "-g", "-DNDEBUG", "-fsanitize=address",
        "-fno-omit-frame-pointer"], link=["-fsanitize=address"]),
    "plain": dict(cxx="g++", flags=COMMON0 + ["-O2", "-g", "-DNDEBUG"], link=[]),
    "realtsan": dict(cxx="clang++", flags=COMMON0 + [
        "-O1", "-g", "-DNDEBUG", "-fsanitize=thread"],
        link=["-fsanitize=thread"]),
}


def sh(cmd, **kw):
    return subprocess.run(cmd, **kw)


def _sha(*parts):
    h = hashlib.sha256()
    for p in parts:
        if isinstance(p, str):
            p = p.encode()
        h.update(p)
        h.update(b"\0")
    return h.hexdigest()[:24]


_hdr_hash_cache = {}


def header_hash(extra_dirs=()):
    """Hash of every header the Galois sources can include (whole include
    trees of the working copy).  Any header edit invalidates all objects."""
    key = tuple(extra_dirs)
    if key in _hdr_hash_cache:
        return _hdr_hash_cache[key]
    h = hashlib.sha256()
    dirs = [os.path.join(REPO, d) for d in INC_DIRS] + list(extra_dirs)
    for d in dirs:
        for root, dn, fn in sorted(os.walk(d)):
            dn.sort()
            for f in sorted(fn):
                p = os.path.join(root, f)
                h.update(p.encode())
                try:
                    with open(p, "rb") as fh:
                        h.update(fh.read())
                except OSError:
                    pass
    _hdr_hash_cache[key] = h.hexdigest()
    return _hdr_hash_cache[key]


def gen_dir():
    """Generate config.h and Version.cpp from the tree's templates."""
    inc = os.path.join(GEN, "include", "galois")
    os.makedirs(inc, exist_ok=True)
    src = open(os.path.join(REPO, "libgalois/include/galois/config.h.in")).read()
    dst = os.path.join(inc, "config.h")
    if not os.path.exists(dst) or open(dst).read() != src:
        open(dst, "w").write(src)
    ver = open(os.path.join(REPO, "config/version.txt")).read().strip()
    parts = (ver.split(".") + ["0", "0", "0"])[:3]
    v = open(os.path.join(REPO, "libgalois/src/Version.cpp.in")).read()
    v = (v.replace("@GALOIS_VERSION@", ver)
          .replace("@GALOIS_VERSION_MAJOR@", parts[0])
          .replace("@GALOIS_VERSION_MINOR@", parts[1])
          .replace("@GALOIS_VERSION_PATCH@", parts[2])
          .replace("@GALOIS_COPYRIGHT_YEAR@", "2018"))
    dstv = os.path.join(GEN, "Version.cpp")
    if not os.path.exists(dstv) or open(dstv).read() != v:
        open(dstv, "w").write(v)
    return GEN


def include_flags(extra=()):
    g = gen_dir()
    fl = ["-I" + os.path.join(g, "include")]
    for d in INC_DIRS:
        fl.append("-I" + os.path.join(REPO, d))
    for d in extra:
        fl.append("-I" + d)
    return fl


def compile_one(src, flavor, extra_flags=(), extra_inc=(), dep_hash=None):
    """Compile one translation unit; returns object path (cached)."""
    fv = FLAVORS[flavor]
    flags = fv["flags"] + list(extra_flags) + include_flags(extra_inc)
    with open(src, "rb") as fh:
        content = fh.read()
    hh = dep_hash if dep_hash is not None else header_hash()
    key = _sha(fv["cxx"], " ".join(flags), src, content, hh)
    os.makedirs(OBJ, exist_ok=True)
    obj = os.path.join(OBJ, key + ".o")
    if os.path.exists(obj):
        return obj
    tmp = obj + ".tmp%d" % os.getpid()
    r = sh([fv["cxx"]] + flags + ["-c", src, "-o", tmp],
           stdout=subprocess.PIPE, stderr=subprocess.STDOUT, text=True)
    if r.returncode != 0:
        sys.stderr.write("COMPILE FAILED: %s\n%s\n" % (src, r.stdout[-6000:]))
        raise SystemExit(2)
    os.replace(tmp, obj)
    return obj


def compile_many(jobs, nproc=16):
    """jobs: list of (src, flavor, extra_flags, extra_inc, dep_hash)."""
    header_hash()
    gen_dir()
    out = [None] * len(jobs)
    with cf.ThreadPoolExecutor(max_workers=nproc) as ex:
        futs = {ex.submit(compile_one, *j): i for i, j in enumerate(jobs)}
        for f in cf.as_completed(futs):
            out[futs[f]] = f.result()
    return out


def galois_objects(flavor, extra_flags=()):
    gen_dir()
    srcs = [os.path.join(REPO, "libgalois/src", s) for s in GALOIS_SRCS]
    srcs.append(os.path.join(GEN, "Version.cpp"))
    hh = header_hash()
    return compile_many([(s, flavor, tuple(extra_flags), (), hh) for s in srcs])


def verif_tree_hash(dirs=("engine", "seqx")):
    h = hashlib.sha256()
    for d in dirs:
        dd = os.path.join(VERIF, d)
        for root, dn, fn in sorted(os.walk(dd)):
            dn.sort()
            for f in sorted(fn):
                p = os.path.join(root, f)
                h.update(p.encode())
                with open(p, "rb") as fh:
                    h.update(fh.read())
    return h.hexdigest()


def link(name, objs, flavor, libs=()):
    fv = FLAVORS[flavor]
    os.makedirs(BIN, exist_ok=True)
    key = _sha(name, flavor, " ".join(sorted(objs)), " ".join(libs))
    out = os.path.join(BIN, "%s-%s" % (name, key))
    if os.path.exists(out):
        return out
    tmp = out + ".tmp%d" % os.getpid()
    cmd = [fv["cxx"]] + fv["link"] + ["-o", tmp] + list(objs) + list(libs) + \
        ["-lpthread", "-ldl", "-rdynamic"]
    r = sh(cmd, stdout=subprocess.PIPE, stderr=subprocess.STDOUT, text=True)
    if r.returncode != 0:
        sys.stderr.write("LINK FAILED: %s\n%s\n" % (name, r.stdout[-8000:]))
        raise SystemExit(2)
    os.replace(tmp, out)
    return out


def harness_headers_hash():
    h = hashlib.sha256()
    d = os.path.join(VERIF, "harness")
    for f in sorted(os.listdir(d)):
        if f.endswith(".h"):
            with open(os.path.join(d, f), "rb") as fh:
                h.update(f.encode())
                h.update(fh.read())
    return h.hexdigest()


def engine_objects():
    """E1 runtime: compiled WITHOUT instrumentation."""
    vh = verif_tree_hash(("engine",))
    srcs = [os.path.join(VERIF, "engine", f) for f in
            ("gsched.cpp", "explorer.cpp")]
    return compile_many([(s, "plain", ("-fno-sanitize=all", "-O2"),
                          (os.path.join(VERIF, "engine"),), vh) for s in srcs])


def build_e1_harness(name, extra_flags=(), extra_srcs=(), extra_inc=()):
    """Harness TU (instrumented) + Galois objects (instrumented) + engine.
    extra_srcs: further /repo sources (relative to REPO) compiled with the
    same instrumentation; extra_inc: include dirs relative to VERIF."""
    src = os.path.join(VERIF, "harness", name + ".cpp")
    vh = verif_tree_hash(("engine",)) + header_hash() + harness_headers_hash()
    inc = (os.path.join(VERIF, "engine"),) + tuple(
        os.path.join(VERIF, d) for d in extra_inc)
    for d in extra_inc:
        vh += verif_tree_hash((d,))
    gobjs = galois_objects("tsan")
    hobj = compile_one(src, "tsan",
                       tuple(extra_flags) + ("-fno-access-control",), inc, vh)
    xobjs = compile_many([(os.path.join(REPO, s), "tsan", tuple(extra_flags),
                           inc, vh) for s in extra_srcs])
    eobjs = engine_objects()
    return link(name, [hobj] + xobjs + gobjs + eobjs, "tsan")


def build_e2_harness(name, flavor="asan", extra_flags=(), with_galois=True,
                     libs=()):
    src = os.path.join(VERIF, "harness", name + ".cpp")
    vh = verif_tree_hash(("seqx",)) + header_hash() + harness_headers_hash()
    gobjs = galois_objects(flavor) if with_galois else []
    hobj = compile_one(src, flavor,
                       tuple(extra_flags) + ("-fno-access-control",),
                       (os.path.join(VERIF, "seqx"),
                        os.path.join(VERIF, "engine")), vh)
    return link(name, [hobj] + gobjs, flavor, libs)


if __name__ == "__main__":
    import time
    t = time.time()
    fl = sys.argv[1] if len(sys.argv) > 1 else "tsan"
    objs = galois_objects(fl)
    print(len(objs), "objects", "%.1fs" % (time.time() - t))

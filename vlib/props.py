"""Property -> check parts.  Each part is one harness binary (or script) that
understands  --tier T --out FILE --deadline SEC  and  --replay FILE  and writes
the common per-case JSON (see engine/explorer.cpp emit_json)."""

E1_ASSUME = [
    "threads interleave at synchronisation operations (atomics, volatile, "
    "mutex/condvar, pthread barrier, thread create/join, spin-wait hooks) and "
    "at plain accesses the happens-before tracker found racy (promotion)",
    "sequentially consistent values for atomics; declared memory orders are "
    "honoured for happens-before only (no store-buffer outcomes)",
    "libc/libstdc++ internals are not instrumented",
    "harness sizes: <=4 threads, small item/object counts (see cells)",
]

PROPS = {
    "C05": dict(
        level="model_checking",
        rule="each case = one barrier implementation x participant count x "
             "fake socket topology (x reinit); executions = all schedules "
             "with <= bound deviations from the deterministic base schedule "
             "(iterative, per level, state-fingerprint pruned); non-trivial = "
             "distinct trace hash among executions with >= 1 deviation",
        bound_note="per-cell bound_completed in coverage.cells",
        assumptions=E1_ASSUME,
        deadline=dict(quick=200, thorough=2400),
        technique="stateless model checking of the implementation: "
                  "exhaustive deviation-bounded schedule enumeration "
                  "(gsched) over all six barrier implementations",
        level_text="every schedule with <= d deviations (d per cell, 1-3) of "
                   "P<=4 participants x 2-3 phases (+ reinit to another "
                   "count) on fake 1-4 socket machines is executed on the "
                   "real barrier code; phase separation, return of all "
                   "participants, reuse and reinit are checked on each",
        level_note="bounded: P<=4, <=3 phases, deviation bound per cell; "
                   "SC values for atomics; scheduler switches only at sync "
                   "operations and promoted racy accesses",
        design_ref="DESIGN.md 2, 7/C05",
        parts=[dict(engine="e1", harness="c05_barriers")],
    ),
}

PROPS["C01"] = dict(
    level="model_checking",
    rule="each case = worklist policy x conflict detection on/off x operator "
         "program (fan-out tree, acquire sets, pushes before/after the last "
         "acquire, voluntary abort) x fake socket topology x thread count; "
         "executions = all schedules with <= bound deviations from the base "
         "schedule (iterative, fingerprint-pruned); oracle on every execution: "
         "every item of the program's tree commits exactly once, nothing is "
         "logged after for_each returned, the loop returns (no deadlock / "
         "livelock / horizon); non-trivial = distinct trace hash among "
         "executions with >= 1 deviation",
    bound_note="per-cell bound_completed in coverage.cells",
    assumptions=E1_ASSUME,
    deadline=dict(quick=240, thorough=2400),
    technique="stateless model checking of the implementation: exhaustive "
              "deviation-bounded schedule enumeration (gsched) of for_each "
              "over every shipped worklist policy",
    level_text="every schedule with <= d deviations (d=1 quick, 1-2 thorough "
               "per cell) of 1-3 worker threads running generated operator "
               "programs through the real for_each executor, for 26 worklist "
               "configurations, conflict detection on/off, on fake 1-3 socket "
               "machines; exactly-once commit, no leaked pushes of aborted "
               "attempts and termination are checked on each execution",
    level_note="bounded: <=3 threads, <=6 items, <=2 lockables, deviation "
               "bound per cell; SC values for atomics; switches at sync "
               "operations and promoted racy accesses only",
    design_ref="DESIGN.md 2, 7/C01",
    parts=[dict(engine="e1", harness="c01_foreach")],
)

E2_ASSUME = [
    "one OS thread per case (no schedule exploration in this engine)",
    "ASan-instrumented build with assertions enabled; a crash / ASan report "
    "is a violation for the history or input that was running",
    "bounds as stated per cell (depth, alphabet, input size)",
]

PROPS["C13"] = dict(
    level="exploration",
    engine_name="seqx",
    rule="bounded-exhaustive input enumeration on the real routines: "
         "block_range (int / random-access / forward iterators) and "
         "split_range for every size<=64 x parts<=9 x base; 64-bit extreme "
         "sizes; divideNodesBinarySearch for EVERY non-decreasing prefix sum "
         "of length<=5 (quick) / 6 (thorough) with increments<=3 x 10 "
         "node/edge weightings x total<=5 x every scale-factor vector with "
         "entries<=3 (total<=3) x node offsets 0..2; "
         "determineUnitRangesFromPrefixSum whole and clipped to every "
         "[begin,end) x units<=6 x nodeAlpha in {0,1,3}. Oracle: pieces "
         "contiguous, ordered, pairwise disjoint, union = input; edge ranges "
         "are exactly the edges of the node piece. Non-trivial = input with "
         ">=2 elements and >=2 parts",
    bound_note="exhaustive to the stated sizes; not a proof for all 64-bit "
               "sizes (that obligation belongs to another technique family)",
    assumptions=E2_ASSUME,
    deadline=dict(quick=120, thorough=1200),
    technique="bounded-exhaustive enumeration of all inputs below a size on "
              "the real code (seqx), against an interval-cover oracle",
    level_text="every input below the stated sizes is run through the real "
               "division routines and checked for exact cover; no sampling",
    level_note="exhaustive only below the stated sizes plus listed 64-bit "
               "boundary values; graph-object based variants "
               "(determineUnitRangesFromGraph, LC_CSR_Graph::divideByNode) "
               "are exercised through C11's thread-range checks",
    design_ref="DESIGN.md 3, 7/C13",
    parts=[dict(engine="e2", harness="c13_division")],
)

PROPS["C06"] = dict(
    level="model_checking",
    rule="cases: (a) SimpleLock / PaddedLock / PtrLock (all unlock variants) "
         "/ ThreadRWlock driven by per-thread scripts of lock / try_lock / "
         "read / write operations from 2-3 threads; (b) one happens-before "
         "probe (plain data written before a promised edge, read after it) "
         "per edge: lock release->acquire, lockable hand-over between "
         "iterations, barrier arrival->departure for all seven barriers, "
         "entry to and return from on_each / do_all / for_each in normal and "
         "burnPower fast mode, worklist push->pop for 11 worklist families. "
         "Executions = all schedules with <= bound deviations; on each the "
         "engine computes happens-before with vector clocks from the "
         "DECLARED memory order of every atomic operation and reports a "
         "probe access that is not ordered; mutual exclusion is checked with "
         "an engine-invisible holder count; non-trivial = distinct trace "
         "hash among executions with >= 1 deviation",
    bound_note="per-cell bound_completed in coverage.cells",
    assumptions=E1_ASSUME + [
        "happens-before is checked per explored SC interleaving; non-SC "
        "values of relaxed atomics are not enumerated"],
    deadline=dict(quick=200, thorough=2400),
    technique="stateless model checking of the implementation: exhaustive "
              "deviation-bounded schedule enumeration (gsched) with "
              "vector-clock happens-before tracking that honours declared "
              "memory orders",
    level_text="every schedule with <= d deviations (d=1-2 quick, 2-3 "
               "thorough) of the lock scripts and edge probes runs on the "
               "real code; exclusion, admission of every requester and "
               "HB-ordering of every probe access are checked on each",
    level_note="bounded: <=3 threads, scripts of <=2 operations per thread; "
               "HB exact per execution for the C++ release/acquire/fence "
               "rules implemented in engine/gsched.cpp (release sequences "
               "continued by RMWs, fences via pending-acquire / "
               "fence-release clocks); consume treated as acquire",
    design_ref="DESIGN.md 2.4, 7/C06",
    parts=[dict(engine="e1", harness="c06_locks_hb")],
)

PROPS["C03"] = dict(
    level="model_checking",
    rule="cases: do_all over vector / list / integer range / InsertBag "
         "(local iterators) with sizes 0..6, chunk sizes 1..3, steal on/off, "
         "1-3 threads on fake [2] [1,1] [3] [2,1] [1,1,1] machines, and pairs "
         "of consecutive regions with different setActiveThreads; on_each "
         "with sequences of active-thread counts (3 then 2, 1 then 3, 4 then "
         "2 ...). Executions = all schedules with <= bound deviations "
         "(includes the pool's wake-up cascade / de-cascade). Oracle: every "
         "element / thread id invoked exactly once (engine-invisible "
         "counters), tid < active, no invocation after the call returned; "
         "no deadlock / livelock; non-trivial = distinct trace hash among "
         "executions with >= 1 deviation",
    bound_note="per-cell bound_completed in coverage.cells",
    assumptions=E1_ASSUME,
    deadline=dict(quick=200, thorough=2400),
    technique="stateless model checking of the implementation: exhaustive "
              "deviation-bounded schedule enumeration (gsched) of do_all / "
              "on_each and the thread pool",
    level_text="every schedule with <= d deviations (d=1 quick, 1-3 "
               "thorough per cell) of the real do_all stealing executor, "
               "on_each and ThreadPool::run on fake multi-socket machines; "
               "exactly-once and join are checked on each execution",
    level_note="bounded: <=4 threads, ranges of <=6 elements, deviation "
               "bound per cell; range arithmetic for large sizes is C13's",
    design_ref="DESIGN.md 2, 7/C03",
    parts=[dict(engine="e1", harness="c03_doall")],
)

PROPS["C04"] = dict(
    level="model_checking",
    rule="two granularities on the real detectors (ring = "
         "LocalTerminationDetection, tree = TreeTerminationDetection): "
         "(1) c04_term_bfs: explicit-state BFS to a FIXPOINT over all "
         "interleavings of detector calls by k=1..4 impersonated threads "
         "(alphabet poll / report / work / give to next / give to previous / "
         "re-arm with another k, hand-overs bounded), state = detector fields "
         "+ ledger; invariants in every state: globalTermination() implies no "
         "thread holds or has unreported work and is never retracted; from "
         "every all-idle state round-robin idle reports reach termination "
         "within (3k+2)k calls. (2) c04_termination: real threads running "
         "the for_each-style loop with scripted hand-overs under the "
         "schedule explorer (instruction granularity, <= bound deviations). "
         "non-trivial = BFS states after >=1 hand-over or re-arm / distinct "
         "traces with >= 1 deviation",
    bound_note="BFS cells report depth_completed and are closed state "
               "spaces (exhaustive for the stated k and hand-over budget); "
               "E1 cells report bound_completed",
    assumptions=E1_ASSUME + [
        "BFS granularity is one detector call (calls are atomic there); "
        "the window inside a call is covered by the E1 part only up to its "
        "deviation bound"],
    deadline=dict(quick=200, thorough=2400),
    technique="explicit-state model checking of the real detector objects "
              "(BFS to fixpoint over call interleavings, thread "
              "impersonation) plus deviation-bounded schedule enumeration "
              "(gsched) with real threads",
    level_text="all reachable detector states for k<=4 threads and bounded "
               "hand-overs are enumerated on the real objects with soundness "
               "checked in each and bounded liveness from each idle state; "
               "intra-call interleavings are enumerated up to d deviations",
    level_note="k<=4, hand-over budget <=3 per loop, one re-arm; E1 part "
               "<=4 threads, d=1-3",
    design_ref="DESIGN.md 2.8, 7/C04",
    parts=[dict(engine="e2", harness="c04_term_bfs", weight=1),
           dict(engine="e1", harness="c04_termination", weight=2)],
)

PROPS["C02"] = dict(
    level="model_checking",
    rule="cases: cautious operator programs (overlapping neighbourhoods "
         "acquired in opposite orders, re-acquisition of an owned object, "
         "voluntary aborts, pushes before/after the last acquire) over 3 "
         "lockable objects carrying a plain owner stamp and a non-commutative "
         "value, through for_each with conflict detection on 5 worklists "
         "(incl. OBIM and Deterministic), 2-3 threads, fake [2] [1,1] [3] "
         "[2,1] [1,1,1] machines (3 sockets select the basic abort policy). "
         "Executions = all schedules with <= bound deviations. Oracle on each "
         "execution: (a) an iteration's stamps on everything it owns are "
         "intact at its commit point and after its update (no double owner); "
         "(b) every new attempt starts with nothing owned by its thread's "
         "context and an empty neighbourhood list; (c) after the loop no "
         "object is owned or locked; (d) final values equal a serial replay "
         "of the committed iterations in commit-log order; plus C01 "
         "conservation; non-trivial = distinct trace hash among executions "
         "with >= 1 deviation",
    bound_note="per-cell bound_completed in coverage.cells; a check-then-act "
               "lock bug needs 2 deviations (thorough tier)",
    assumptions=E1_ASSUME,
    deadline=dict(quick=200, thorough=1800),
    technique="stateless model checking of the implementation: exhaustive "
              "deviation-bounded schedule enumeration (gsched) of for_each "
              "with conflict detection",
    level_text="every schedule with <= d deviations (d=1 quick, 1-3 "
               "thorough) of 2-3 workers running overlapping cautious "
               "operators through the real lock manager / abort paths; "
               "ownership, abort cleanliness and serialisability are checked "
               "on each",
    level_note="bounded: <=3 threads, <=6 items, 3 objects; plain stamp "
               "accesses become scheduling points through race-directed "
               "promotion when a lock stops protecting them",
    design_ref="DESIGN.md 2, 7/C02",
    parts=[dict(engine="e1", harness="c02_isolation")],
)

PROPS["C08"] = dict(
    level="model_checking",
    rule="cases: (a) BulkSynchronous<PerSocketChunkFIFO<1>> / <ChunkLIFO<2>> "
         "with items tagged by creation round; (b) OrderedByIntegerMetric "
         "with_barrier<true> (plain, with_monotonic, without back-scan "
         "prevention, with_descending) with monotone operator programs "
         "(dense, sparse and same-level priorities); conflict detection "
         "off/on; 2-3 threads on fake [2] [1,1] [3] [2,1] machines. "
         "Executions = all schedules with <= bound deviations. Oracle from "
         "the ledger on each execution: (a) no item of a later round starts "
         "before every item of an earlier round committed; (b) no item "
         "starts while an existing item of strictly higher urgency is "
         "uncommitted; plus conservation; non-trivial = distinct trace hash "
         "among executions with >= 1 deviation",
    bound_note="per-cell bound_completed in coverage.cells",
    assumptions=E1_ASSUME,
    deadline=dict(quick=220, thorough=1800),
    technique="stateless model checking of the implementation: exhaustive "
              "deviation-bounded schedule enumeration (gsched) of the "
              "level-synchronous schedulers",
    level_text="every schedule with <= d deviations (d=1 quick, 1-2 "
               "thorough) of the real BulkSynchronous and barrier-OBIM "
               "worklists inside for_each; level separation and conservation "
               "are checked on each execution",
    level_note="bounded: <=3 threads, <=6 items; 'committed' is observed at "
               "the operator's commit point (slightly earlier than the "
               "executor's flush), which can only hide, never invent, an "
               "inversion",
    design_ref="DESIGN.md 2, 7/C08",
    parts=[dict(engine="e1", harness="c08_levels")],
)

PROPS["C07"] = dict(
    level="model_checking",
    rule="cases: for_each with wl<Deterministic<>> in five variants (plain, "
         "det_id, fixed_neighborhood, local_state, det_parallel_break) over "
         "cautious non-commutative operator programs on 3 lockables with "
         "dynamic pushes, 2-3 threads, fake [2] [1,1] [3] [2,1] machines. "
         "Each execution first runs the same loop on ONE thread inside the "
         "child (reference), then under exploration with T threads. "
         "Executions = all schedules with <= bound deviations. Oracle: final "
         "object values, per-object commit sequences and the set of "
         "committed items (a) equal the one-thread reference and (b) are "
         "identical across all explored schedules (differential); plus "
         "conservation, isolation stamps, local-state round trip, nothing "
         "left owned; non-trivial = distinct trace hash among executions "
         "with >= 1 deviation",
    bound_note="per-cell bound_completed in coverage.cells",
    assumptions=E1_ASSUME,
    deadline=dict(quick=200, thorough=1800),
    technique="stateless model checking of the implementation: exhaustive "
              "deviation-bounded schedule enumeration (gsched) with a "
              "differential oracle across schedules and thread counts",
    level_text="every schedule with <= d deviations (d=1 quick, 1-2 "
               "thorough) of the real deterministic executor (~10 barrier "
               "phases per round); the observable result must be the same "
               "string in all of them and equal to the one-thread run",
    level_note="bounded: <=3 threads, <=5 items, 3 objects",
    design_ref="DESIGN.md 2, 7/C07",
    parts=[dict(engine="e1", harness="c07_deterministic")],
)

PROPS["C10"] = dict(
    level="model_checking",
    rule="sequential half (c10_morph_seq, seqx history BFS, 30 cases): 15 "
         "flavours of MorphGraph / Morph_SepInOut_Graph / MorphHyperGraph "
         "(directed, in/out, undirected, sorted, no-lockable, void edge data) "
         "x two start states, alphabet of 42-51 operations over all 9 ordered "
         "node pairs (addNode, addEdge, addMultiEdge, data update, "
         "removeNode, removeEdge, removeInEdge), depth 4 (quick) / 5-7 "
         "(thorough), against a plain adjacency model; after every step: live "
         "node set, per-node (dst,data) multisets of out- and in-edges, no "
         "edge to a removed node, reverse entries share the data cell, sorted "
         "flavours sorted, each live node/edge yielded once, findEdge "
         "membership for every pair. concurrent half (c10_morphgraph): 3 for_each iterations, each a "
         "cautious mutation program of <= 2 operations (addEdge with "
         "duplicate check, addMultiEdge, removeEdge via findEdge, removeNode, "
         "addNode, edge-data update) over overlapping endpoints of a 3-4 "
         "node MorphGraph, default conflict flags, five flavours (directed, "
         "directed in/out, undirected, sorted directed, sorted undirected), "
         "2-3 threads, fake [2] [1,1] [2,1] machines. Executions = all "
         "schedules with <= bound deviations. Oracle on each: the final "
         "structural dump (through the public iteration API) equals the SAME "
         "implementation replaying the committed programs serially in "
         "commit-log order on a fresh graph; no edge to a removed node; "
         "reverse entries exist and carry equal data multisets; sorted "
         "flavours sorted; non-trivial = distinct trace hash among executions "
         "with >= 1 deviation",
    bound_note="per-cell bound_completed in coverage.cells",
    assumptions=E1_ASSUME,
    deadline=dict(quick=200, thorough=2400),
    technique="stateless model checking of the implementation: exhaustive "
              "deviation-bounded schedule enumeration (gsched) with a "
              "serial-replay oracle on the same implementation",
    level_text="every schedule with <= d deviations (d=1 quick, 1-2 "
               "thorough) of concurrent mutation programs on the real "
               "MorphGraph; serialisability against the implementation's own "
               "serial semantics and structural invariants on each",
    level_note="bounded: <=3 threads, 3 iterations x <=2 operations, <=4 "
               "nodes; no-lockable flavour is sequential-only (no conflict "
               "detection to test)",
    design_ref="DESIGN.md 2, 7/C10",
    parts=[dict(engine="e2", harness="c10_morph_seq", weight=2),
           dict(engine="e1", harness="c10_morphgraph", weight=2)],
)

PROPS["C15"] = dict(
    level="model_checking",
    engine_name="seqx",
    rule="sequential half (c15_reductions, 51 cases): every sequence of <=4 "
         "(quick) / <=5 (thorough) updates from {lowest,-2,-1,-0.5,0,1,max} "
         "x every assignment to 3 threads (real on_each, thread t applies "
         "its own updates) for GAccumulator (+=, -=, update forms), "
         "GReduceMax/Min, logical and/or, user Reducibles incl. a move-only "
         "type, on int / unsigned / float / double; oracle = sequential fold, "
         "reduce twice, reset, reuse. DynamicBitSet: history BFS to a closed "
         "state space for n in {1,63,64,65,130}, reset(b,e) for ALL b<=e, "
         "bitwise ops over a block alphabet; UnionFind: BFS closed at 24 "
         "states; atomicMin/Max/Add/Subtract sequentially; per-thread "
         "containers filled from on_each. Non-trivial = >=2 threads received "
         "an update / range crosses a word boundary / tree depth>=2 / value "
         "changed (per case, see harness). Concurrent half "
         "(c15_concurrent, gsched): 2-3 real threads x 1-2 operations on "
         "shared targets -- atomicMin/Max/Add/Subtract CAS loops, "
         "DynamicBitSet set/reset of distinct bits in the same word, "
         "UnionFind merge/findAndCompress on 4 elements, InsertBag "
         "concurrent push then serial read, reducers -- all schedules with "
         "<= d deviations (d=1-3 quick, 2-5 thorough); oracle = the value "
         "the same operations give in any sequential order",
    bound_note="exhaustive to the stated lengths; signed overflow and "
               "non-finite float results excluded (undefined for model and "
               "implementation alike)",
    assumptions=E2_ASSUME + E1_ASSUME,
    deadline=dict(quick=240, thorough=2400),
    technique="bounded-exhaustive enumeration of update multisets x thread "
              "assignments and explicit-state BFS over operation histories "
              "on the real code (seqx), against sequential folds / "
              "std::vector<bool> / a partition model",
    level_text="all update sequences and thread assignments below the bound "
               "run through the real reducers with real threads; bitset and "
               "union-find state spaces are closed",
    level_note="thread interleavings inside on_each are not controlled here "
               "(reducers are per-thread, so the result is schedule "
               "independent by construction)",
    design_ref="DESIGN.md 3, 7/C15",
    parts=[dict(engine="e2", harness="c15_reductions", weight=3),
           dict(engine="e1", harness="c15_concurrent", weight=1)],
)

PROPS["C17"] = dict(
    level="model_checking",
    rule="serialisation half (c17_serialize, seqx): every sequence of <=3 "
         "(quick) / <=4 (thorough) gSerialize calls over an alphabet of 34 "
         "types / 74 values (scalars, pair, tuple, string, vectors of "
         "copyable and non-copyable elements, deque, gdeque, "
         "PODResizeableArray, DynamicBitSet, nested buffers, user types) "
         "after 0..7 pad bytes, deserialised in order: values equal, bytes "
         "consumed == bytes produced per value, nothing left / no over-read; "
         "variadic forms; deserialising into targets that already hold a "
         "value; history BFS over SerializeBuffer/DeSerializeBuffer "
         "operations against byte vectors. network half (c17_network): the real NetworkBuffered.cpp / "
         "NetworkIOMPI.cpp / Network.cpp / Barrier.cpp over an in-process MPI "
         "reflector (message to host h tag t comes back from host h tag t, "
         "FIFO per peer, arbitrary across peers), communication thread + "
         "1-2 sender threads, 1-4 messages to 1-2 peers with 2 tags and "
         "payloads of 16 / 1399 / 1401 bytes around COMM_MIN and 3 MiB, flush "
         "present/absent, aggregation timeout always/never firing, host "
         "fence. Choice points = thread schedule AND environment answers "
         "(which pending message MPI_Iprobe shows or none; whether MPI_Test "
         "completes); executions = all with <= bound deviations. Oracle: "
         "every message received exactly once, byte-identical, in order per "
         "(sender, peer, tag); send buffers intact until completion; nothing "
         "extra; non-trivial = distinct trace hash among executions with "
         ">= 1 deviation",
    bound_note="per-cell bound_completed in coverage.cells",
    assumptions=E1_ASSUME + [
        "one process plays all hosts through the reflector; real multi-"
        "process MPI transport is not explored",
        "serialisation half is checked by c17_serialize (seqx)"],
    deadline=dict(quick=240, thorough=1800),
    technique="stateless model checking of the implementation with "
              "environment-answer enumeration (gsched + fake MPI reflector)",
    level_text="every schedule and environment-answer sequence with <= d "
               "deviations (d=0-1 quick, 1-2 thorough) of the real buffered "
               "network layer; exactly-once, intact, in-order delivery "
               "checked on each",
    level_note="bounded: <=4 messages, <=3 hosts, <=2 sender threads",
    design_ref="DESIGN.md 4, 7/C17",
    parts=[dict(engine="e2", harness="c17_serialize", weight=1),
           dict(engine="e1", harness="c17_network", weight=3,
                extra_srcs=("libdist/src/NetworkBuffered.cpp",
                            "libdist/src/Network.cpp",
                            "libdist/src/NetworkIOMPI.cpp",
                            "libdist/src/Barrier.cpp"),
                extra_inc=("harness/fakempi",))],
)

PROPS["C14"] = dict(
    level="model_checking",
    engine_name="seqx",
    rule="history BFS on the real containers, one fresh object + one fresh "
         "std:: reference model per history, full comparison (return values, "
         "size, forward AND backward traversal, live-instance registry with "
         "moved-from flag) after every operation; state key = observable "
         "contents incl. block fill pattern. Cases: gdeque<Elem,2|3>, "
         "gdeque<int,2>, FixedSizeRing<2|3>, FixedSizeBag, "
         "ConcurrentFixedSizeBag, gslist<2|3>, flat_map (22 ops), "
         "PODResizeableArray, LazyArray/LazyObject/optional, "
         "MinHeap/ThreadSafeMinHeap/ThreadSafeOrderedSet, InsertBag with 2 "
         "and 3 elements per block, LargeArray; enumeration of "
         "TwoLevelIterator(A) over every shape of <=3 (quick) / <=5 inner "
         "containers, flat_map and priority-queue range constructors. "
         "Non-trivial (per case): container spanned >=2 blocks / ring wrapped "
         "/ bag full / >=2 keys / reallocated twice / >=3 queued / >=2 live "
         "slots",
    bound_note="BFS depth per cell in coverage.cells (quick 4-5, thorough "
               "7-10; several small state spaces are closed)",
    assumptions=E2_ASSUME + [
        "operations the headers document as undefined (pop/front on empty "
        "where asserted, gdeque::erase = GALOIS_DIE) are not in the alphabet",
        "members that do not compile are outside the property (opt-in "
        "diagnostic VERIF_COMPILE_PROBES=1)"],
    deadline=dict(quick=200, thorough=2400),
    technique="explicit-state BFS over operation histories on the real "
              "containers (seqx, ASan) against std:: reference models",
    level_text="every operation history up to the depth bound (deduplicated "
               "by observable state) is replayed on the real container and "
               "compared step by step with the standard counterpart",
    level_note="single thread; element values from a 2-3 letter alphabet; "
               "chunk sizes 2-3 so block boundaries lie inside the depth "
               "bound",
    design_ref="DESIGN.md 3, 7/C14",
    parts=[dict(engine="e2", harness="c14_containers")],
)

PROPS["C16"] = dict(
    level="model_checking",
    rule="(1) c16_parallelstl (seqx): every sequence of length <=6 (quick) / "
         "<=7 over 3 keys and every combination of a 6-pattern block "
         "alphabet for sizes {1023,1024,1025,2047,2048,2049,3072,3073,4096} "
         "(<=3 blocks quick, <=4 thorough) through sort, partition, count_if, "
         "find_if, accumulate, map_reduce, partial_sum, destroy with T=1..4 "
         "real threads, compared with std:: (partition: valid point + "
         "permutation; find_if: some satisfying element). (2) c16_pstl_sched "
         "(gsched): partition with 2-4 blocks x block patterns, sort above "
         "the cut-off with rand() pinned, find_if with parallel_break, "
         "count_if / accumulate / map_reduce / partial_sum under ALL "
         "schedules with <= d deviations (d=1-2 quick, 2-5 thorough). "
         "Non-trivial = T>=2 and input takes the parallel path / distinct "
         "trace hash with >= 1 deviation",
    bound_note="per-cell bounds in coverage.cells",
    assumptions=E2_ASSUME + E1_ASSUME,
    deadline=dict(quick=240, thorough=1800),
    technique="bounded-exhaustive input enumeration (seqx) plus exhaustive "
              "deviation-bounded schedule enumeration (gsched) of the "
              "block-claiming helpers, both on the real ParallelSTL code",
    level_text="all inputs below the stated sizes for T=1..4, and all "
               "schedules up to d deviations for the synchronising kernels",
    level_note="thread interleavings in part (1) are uncontrolled (one run "
               "per input and T); part (2) controls them for <=4 blocks",
    design_ref="DESIGN.md 3, 7/C16",
    parts=[dict(engine="e2", harness="c16_parallelstl", weight=2),
           dict(engine="e1", harness="c16_pstl_sched", weight=2)],
)

PROPS["C09"] = dict(
    level="model_checking",
    rule="sequential half (c09_allocators, seqx history BFS, 27 cases): every "
         "history up to depth 4 (quick) / 6-12 (thorough) of allocate / free "
         "/ clear over size alphabets hitting every class boundary, with the "
         "operation's (impersonated) thread in the alphabet so blocks are "
         "freed on other threads than they were allocated on: FixedSizeHeap, "
         "fresh SizedHeaps, Pow_2_BlockHeap for every class 2^3..2^16, page "
         "pool + PageHeap, PerThreadStorage / PerSocketStorage objects, a "
         "private PerBackend (offset split path), VariableSizeHeap, BumpHeap "
         "(both overloads), BumpWithMallocHeap / per-iteration allocator, "
         "LargeArray (all allocate variants). Shadow model = interval map of "
         "live blocks + per-block canaries re-checked after every step; "
         "blocks must lie inside memory the library itself mapped (mmap "
         "interposed); alignment 8 / 128 / 2 MiB relative to the library's "
         "mapping. concurrent half (c09_concurrent, gsched): 2-3 real threads on the "
         "shared allocator paths -- FixedSizeHeap allocate / deallocate with "
         "every block freed on a DIFFERENT thread than it was allocated on, "
         "page pool alloc / free across threads and sockets, "
         "SizedHeapFactory::getHeapForSize lookups for equal and different "
         "sizes, PerBackend::allocOffset / deallocOffset racing on nextLoc -- "
         "all schedules with <= d deviations (d=1-3 quick, 2-5 thorough). "
         "Oracle: an engine-invisible registry of live blocks with per-block "
         "canaries: every returned block is aligned, disjoint from every "
         "live block, canaries intact at every free and at the end; one heap "
         "per size; live per-thread-storage offsets disjoint; non-trivial = "
         "distinct trace hash among executions with >= 1 deviation",
    bound_note="per-cell bound_completed in coverage.cells",
    assumptions=E2_ASSUME + E1_ASSUME,
    deadline=dict(quick=240, thorough=2400),
    technique="explicit-state BFS over allocation histories (seqx, shadow "
              "interval map + canaries) and exhaustive deviation-bounded "
              "schedule enumeration (gsched) of the shared allocator paths",
    level_text="every schedule with <= d deviations of concurrent "
               "allocate/free (incl. cross-thread free) on the real heaps, "
               "page pool and per-thread-storage backend",
    level_note="bounded: <=3 threads, <=4 blocks per thread; sequential "
               "histories (size classes, bump heaps, per-iteration heap, "
               "LargeArray) are the seqx part",
    design_ref="DESIGN.md 2, 3, 7/C09",
    parts=[dict(engine="e2", harness="c09_allocators", weight=3),
           dict(engine="e1", harness="c09_concurrent", weight=1)],
)

PROPS["C12"] = dict(
    level="exploration",
    engine_name="seqx + tool subprocesses",
    rule="(A) c12_roundtrip (seqx, 28 cases): every directed multigraph with "
         "n<=3 nodes and m<=3 (quick) / m<=4 (thorough) edges as an ORDERED "
         "edge list x edge-data widths 0/1/4/8 x format versions 1 and 2: "
         "written by FileGraphWriter / toFile and decoded by an independent "
         "decoder in the harness; written by an independent encoder "
         "(gr_format.h) and read by FileGraph::fromFile / "
         "fromFileInterleaved, partFromFile at EVERY node range x edge-range "
         "end, OCFileGraph (every segment), OfflineGraph, "
         "BufferedGraph::loadGraph / loadPartialGraph at every node range. "
         "(B) c12_convert.py (81 cases): the real graph-convert binary, built "
         "from the tree, on every text input of <=3 (quick) / <=4 lines from "
         "an 8-10 symbol alphabet (plain / weighted edge, comment, blank, "
         "CRLF, id gap, duplicate, self loop) for edgelist2gr x 7 edge types, "
         "csv2gr, dimacs2gr, and every documented gr->gr transform and "
         "gr->text->gr round trip on all graphs with n<=3, m<=3, compared "
         "with an independent Python reference of what each option "
         "documents (undocumented choices accepted explicitly, listed as "
         "ACCEPT in the script). Non-trivial = m>=1 and (odd m with data or a "
         "node with >=2 out-edges) / proper sub-range holding an edge",
    bound_note="exhaustive to the stated sizes; ids >= 2^32, version 2 "
               "OUTPUT (only produced above 2^32-1 nodes) and the bipartite / "
               "bsml / totem / neo4j / svmlight conversions are not covered",
    assumptions=E2_ASSUME + [
        "randomising conversions are checked for the documented invariant "
        "only (same structure, weights in range)"],
    deadline=dict(quick=300, thorough=2400),
    technique="bounded-exhaustive enumeration of all graphs and text inputs "
              "below a size through the real readers, writers and the "
              "graph-convert tool, against independent encoders / decoders",
    level_text="every input below the stated size runs through the real "
               "code; decoders and references share no code with Galois",
    level_note="single thread / one tool process per input",
    design_ref="DESIGN.md 3, 7/C12",
    parts=[dict(engine="e2", harness="c12_roundtrip", weight=1),
           dict(engine="py", harness="c12_convert",
                script="harness/c12_convert.py", weight=2)],
)

PROPS["C11"] = dict(
    level="model_checking",
    rule="(1) c11_staticgraphs (seqx, 12 cases): EVERY directed multigraph "
         "with n<=3 nodes and m<=3 (quick) / m<=4 (thorough; 7728 graphs) "
         "edges as an ORDERED edge list x edge data void / uint32 / uint64 / "
         "12-byte POD x T=1..4 construction threads, written by an "
         "independent .gr encoder (gr_format.h), through LC_CSR, LC_CSR_CSC, "
         "LC_InOut (over CSR and Linear), LC_Linear, LC_InlineEdge, LC_Morph, "
         "LC_Adaptor via readGraph and via constructFrom / array builders; "
         "oracle per graph: node count, per-node out-edge SEQUENCE (file "
         "order) or multiset where the layout promises no order, in-edges = "
         "transposed multiset with data, transpose(), sortEdgesByDst / "
         "ByEdgeData are sorted permutations, findEdge / findEdgeSortedByDst "
         "membership for every pair, degrees, per-thread local ranges and "
         "determineUnitRangesFromGraph partition the nodes; plus a structured "
         "family of 22 graphs up to 3000 nodes through all layouts. "
         "(2) c11_builders (gsched): constructFrom from vectors, in-place "
         "transpose(), transpose twice, constructIncomingEdges (atomic slot "
         "claiming) on three 3-4 node multigraphs, T=2-3, all schedules with "
         "<= d deviations (d=1-2 quick, 2-3 thorough). Non-trivial = >=2 "
         "nodes and >=2 edges / distinct traces with >= 1 deviation",
    bound_note="exhaustive to the stated graph sizes; T>=3 runs a reduced "
               "programme (readGraph + non-modifying checks) except on the "
               "structured family",
    assumptions=E2_ASSUME + E1_ASSUME + [
        "builders that do not compile are outside the property (opt-in "
        "diagnostic VERIF_COMPILE_PROBES=1)"],
    deadline=dict(quick=300, thorough=2400),
    technique="bounded-exhaustive enumeration of all small multigraphs "
              "through every layout and view (seqx) plus exhaustive "
              "deviation-bounded schedule enumeration of the parallel "
              "builders (gsched)",
    level_text="every graph below the stated size is built in every layout "
               "and compared with the input; parallel builders are run under "
               "all schedules up to d deviations",
    level_note="construction thread interleavings in part (1) are "
               "uncontrolled; part (2) controls them for 3-4 node graphs",
    design_ref="DESIGN.md 3, 7/C11",
    parts=[dict(engine="e2", harness="c11_staticgraphs", weight=3),
           dict(engine="e1", harness="c11_builders", weight=1)],
)

PROPS["C20"] = dict(
    level="exploration",
    engine_name="appx: input x configuration enumeration over the real "
                "application binaries",
    rule="c20_apps.py: the 11 Lonestar CPU applications (bfs, sssp, "
         "connected-components, minimum-spanningtree, triangle-counting, "
         "k-core, pagerank-pull, pagerank-push, maximal-independentset, "
         "maximum-cardinality-matching, preflowpush) are built from the "
         "working tree with CMake+Ninja (Release) and run as processes. One "
         "case per (app, algorithm variant): 70 cases = every value of every "
         "algorithm-selecting option (-algo, -exec, -detBase/-detDisjoint, "
         "-pfpAlgo/-ffAlgo/-abmpAlgo x -serial/-parallel, -relabel, "
         "-useHLOrder, -useUnitCapacity, -useSymmetricDirectly, sssp -delta "
         "13/1, pagerank -tolerance 1e-3/1e-5, mst with/without "
         "-symmetricGraph) x -t in {1,2,4} x EVERY input of a fixed list "
         "inside the app's documented domain: all labelled digraphs / "
         "symmetric graphs / bipartite graphs below a size (quick: n<=2 all, "
         "n=3 or 4 by a prime stride through the edge-mask order; thorough: "
         "digraphs n<=3 all + n=4 by stride, symmetric n<=4 all + n=5 by "
         "stride, bipartite up to 2x3 all + 3x3 by stride, with and without "
         "self loops where the app allows them), weights {1,2,7} by a fixed "
         "rule of the endpoints, source/sink at both ends of the id order, "
         "plus a structured family of 39 graphs up to 64 nodes (paths, "
         "stars, cliques, cycles, two components, barbell, grids, heavy "
         "tail, DAGs, layered, bipartite, parallel-edge copies) and one "
         "601-node star that crosses the 256/512-edge tile sizes. The answer "
         "the app PRINTS is compared with an independent Python reference "
         "(networkx BFS / Dijkstra / Hopcroft-Karp / max-flow, union-find, "
         "Kruskal, brute-force triangles, peeling, float64 power iteration "
         "with tolerance-derived bounds, feasible sizes of maximal "
         "independent sets by enumeration / MILP). A crash, abort, failed "
         "self-verification, missing result line or time-out is a violation "
         "too. executions = app processes run and checked; non-trivial = "
         "graph with >=2 nodes and >=1 edge and -t>=2",
    bound_note="bounded-exhaustive over the listed inputs x variants x "
               "{1,2,4} threads (cells: inputs, space = planned runs); NOT "
               "every graph below a size for n=4/5 (fixed strides, stated "
               "per app in harness/c20_apps.py); bfs/sssp report one node's "
               "distance per run (rotating with -t) plus #visited, max and "
               "sum; cc prints counts and largest size only; independent set "
               "prints only its cardinality; after 2 time-outs the rest of a "
               "case is skipped (skipped_after_hangs)",
    assumptions=[
        "thread schedules inside an application run are NOT controlled "
        "(schedules: uncontrolled in every cell); a failing multi-threaded "
        "run is repeated 5 times and the repeat count is reported",
        "Afforest variants of connected-components draw from "
        "std::random_device; not controlled",
        "app processes run under a 4-CPU affinity mask with "
        "GALOIS_DO_NOT_BIND_THREADS=1 (the Galois runtime sees a 4-CPU "
        "machine), at most 12 app threads at a time",
        "distributed applications are not covered here"],
    deadline=dict(quick=240, thorough=1800),
    technique="bounded-exhaustive enumeration of inputs x algorithm variants "
              "x thread counts on the real application binaries against "
              "independent Python references",
    level_text="every listed input x every algorithm variant x -t 1/2/4 runs "
               "through the real application binary and its printed answer "
               "is compared with an independent reference",
    level_note="inputs x configurations are enumerated, schedules are not "
               "(DESIGN.md 9); level exploration, not model_checking",
    design_ref="DESIGN.md 3, 6.1, 7/C20, 9",
    parts=[dict(engine="py", harness="c20_apps",
                script="harness/c20_apps.py")],
)

# ---- engine E4 (real MPI hosts): proposed by the E4 harness author, see
# DESIGN.md 11.5 ----
E4_ASSUME = [
    "schedules: cross-host message arrival order and thread schedules are NOT "
    "controlled (hosts are separate MPI processes); every mpirun session is "
    "repeated r times (r=2; r=3 in C19's thorough tier) and every cell "
    "says "
    "'schedules: uncontrolled, r repetitions'",
    "hosts are h separate processes of ONE machine (Open MPI 4.1.4, "
    "shared-memory transport, --oversubscribe --bind-to none); no real "
    "network",
    "libraries are built from /repo's working tree with CMake+Ninja, "
    "Release (-O3 -DNDEBUG, assertions off as shipped), "
    "-DGALOIS_ENABLE_DIST=ON; header-only CuSP/Gluon code is compiled into "
    "the harness with exactly the project's flags",
    "1 Galois thread per host (2 on a handful of cases)",
    "a session that makes no progress for 60 s (C19) / 120 s without a "
    "heartbeat (C18) is killed, the case that was running is re-run alone; "
    "only a crash/hang that reproduces alone is a violation, otherwise it is "
    "listed as 'unconfirmed' in the part's JSON and does not affect the exit "
    "code",
]

PROPS["C19"] = dict(
    level="exploration",
    engine_name="mpix: input x configuration enumeration over real MPI hosts",
    rule="c19_partition.cpp + e4_driver.py: every case = one input graph x "
         "one CuSP configuration x one host count, partitioned by the real "
         "galois::cuspPartitionGraph<Policy,char,EdgeData> inside an "
         "`mpirun -np h` session; a real GluonSubstrate is built on top (its "
         "constructor produces the master lists). Every host's local edges "
         "(global src, global dst, data), L2G/G2L, isOwned/getHostID of "
         "every proxy, isLocal of every node, numOwned / numNodesWithEdges, "
         "mirror lists (before and after the substrate's id conversion) and "
         "master lists are gathered with plain MPI on a private communicator "
         "and checked on rank 0 against the input edge list: union of local "
         "edge multisets == input multiset incl. data; exactly one master "
         "per node and every proxy agrees who it is; no edge endpoint "
         "without a proxy; L2G/G2L mutually inverse, isLocal consistent; "
         "masters are the local-id prefix [0,numOwned); "
         "numOwned<=numNodesWithEdges<=size and no out-edge beyond it; each "
         "mirror list == the host's mirrors mastered by that peer == the "
         "peer's master list for this host, in the same order; for a "
         "partition that says is_vertex_cut()==false, mirrors have no local "
         "out-edges (not transposed) / in-edges (transposed). Inputs: EVERY "
         "directed multigraph (self loops and parallel edges allowed, node "
         "ids significant) with n<=3, m<=2 (73 graphs; thorough m<=3: 259) "
         "written as version-1 .gr + transposed .gr by the driver's own "
         "encoder, plus 10 structured graphs (path5, instar5, outstar5, "
         "cycle4, twocomp5, clique4, isolated5, empty4, lastheavy6, fan8), 5 "
         "graphs with fewer nodes than hosts, their symmetrised copies, and "
         "one graph with a 1002-edge node (hybrid cuts' high-degree branch). "
         "Configurations: exactly the calls of DistBench/Input.h -- oec, iec, "
         "hovc, hivc, cvc, cvc-iec, ginger-o/i, fennel-o/i, sugar-o, each "
         "for CSR and CSC output (8 policy classes), the symmetricGraph "
         "shortcut, edge data void / uint32, read balancing "
         "BALANCED_EDGES_OF_MASTERS / BALANCED_MASTERS / "
         "BALANCED_MASTERS_AND_EDGES, asynchronous and synchronous master "
         "assignment; hosts 1..4. quick: all 259 graphs with m<=3 x all 11 "
         "policies at h=2 (CSR), all 73 with m<=2 x all policies at h=2 "
         "(CSC) and h=3 (CSR), the structured family with uint32 data at "
         "h=1..4 and the option variants on it (5213 cases). thorough: the m<=3 family x "
         "all policies at h=2,3, every n<=3 graph with 4 edges at h=2 and "
         "every 4-node graph with m<=2 at h=2,3,4 x all policies, and the "
         "full option cross product on the structured family at h=1..4. executions = partitions run and "
         "checked; states = distinct (graph, configuration, hosts); "
         "transitions = host partitions inspected; non-trivial = at least "
         "one mirror proxy exists",
    bound_note="bounded-exhaustive in graphs (n<=3, m<=2 / m<=3) x the "
               "listed configurations x hosts 1..4; the option cross product "
               "(read balancing, sync assignment, symmetric shortcut, uint32 "
               "data) is complete only on the structured family; "
               "cuspStateRounds fixed at 100 (1 on a few thorough cases); "
               "masterBlockFile and the node/edge weights are not varied; "
               "runs WITHOUT the idle-poll pacing shim (pure Galois timing); "
               "thorough stops at its deadline with exhaustive:false for the "
               "cells it did not finish",
    assumptions=E4_ASSUME,
    deadline=dict(quick=420, thorough=2400),
    technique="bounded-exhaustive enumeration of input graphs x partitioning "
              "configurations x host counts on the real CuSP code over real "
              "MPI processes, structural oracle computed from the input",
    level_text="every listed graph x policy x CSR/CSC x option x host count "
               "is partitioned by the real code and the gathered partition "
               "is compared with the input",
    level_note="inputs x configurations are enumerated, message arrival "
               "order is not (DESIGN.md 5, 9); level exploration",
    design_ref="DESIGN.md 5, 6.1, 7/C19, 9",
    parts=[dict(engine="py", harness="c19_partition",
                script="harness/e4_driver.py", args=("--prop", "C19"))],
)

PROPS["C18"] = dict(
    level="exploration",
    engine_name="mpix: input x configuration enumeration over real MPI hosts",
    rule="c18_gluon.cpp + e4_driver.py: every case = one graph partitioned "
         "by the real CuSP code (as in C19) on h hosts; on it, for every "
         "DataCommMode the substrate can be told to enforce through its "
         "constructor (auto, bitsetData, offsetsData, gidsData, onlyData), "
         "for reduction in {min, add, set} on a uint32 field "
         "(GALOIS_SYNC_STRUCTURE_REDUCE_MIN/ADD/SET), for (write, read) "
         "location in {src,dst,any}^2 (forced modes: all 9 pairs in "
         "thorough, the pairs (any,any),(src,dst),(dst,src) in quick), "
         "update bitset on / off (off only with auto), and for EVERY subset "
         "of the proxies that are eligible for the write location (all 2^E "
         "subsets when E<=capbits (5-8), else the family |S|<=2 or |S|>=E-1): "
         "all proxies are initialised, proxy #i of the subset writes 1+i and "
         "marks the bitset, GluonSubstrate::sync<write,read,Reduce,Bitset>() "
         "runs, and the (pre, post) values of every proxy of every host are "
         "gathered with plain MPI and compared on rank 0 with the reduction "
         "computed from the gathered PRE-sync values; only proxies readable "
         "at the read location are compared. Eligibility is computed from "
         "the local edges the hosts really hold (source = has a local "
         "out-edge, destination = has a local in-edge, the master always). "
         "min: every readable proxy == min(master, written mirrors); add: "
         "master + sum(written mirrors) with unwritten mirrors at the "
         "identity; set: the master's value if no eligible mirror was "
         "written, else one of the values written at eligible mirrors "
         "(arrival order decides) and all readable proxies agree. The "
         "encodings chosen per message are counted at the call site of "
         "get_data_mode() and reported (all of noData, bitsetData, "
         "offsetsData, gidsData, onlyData occur). executions = cases; "
         "transitions = syncs executed; states = distinct sync inputs; "
         "non-trivial = a written proxy belongs to a node with >= 2 proxies",
    bound_note="BSP sync only (async=false); uint32 fields; one sync from a "
               "freshly initialised state per input (no sequences of syncs); "
               "graphs: 9 chosen n<=3 graphs x 10 policy/output "
               "configurations at 2 hosts and 7 at 3 hosts + 3-4 structured "
               "graphs in quick, all 73 n<=3,m<=2 graphs + the structured family in "
               "thorough; hosts 1..4; Ginger/Fennel/Sugar are partitioned "
               "with cuspAsync=false here (C19 covers the asynchronous "
               "assignment); all sessions run unpaced (pure Galois timing; "
               "the idle-poll shim harness/e4_pace.h is off unless "
               "VERIF_E4_PACE=1); "
               "partitionAgnostic, GPU batch paths, vector bitsets, "
               "GluonEdgeSubstrate and bare-MPI builds are not covered",
    assumptions=E4_ASSUME + [
        "a case whose partitioning stage crashes is not a C18 verdict (it "
        "is C19's finding) and is listed under partition_stage_failures",
    ],
    deadline=dict(quick=600, thorough=2400),
    technique="bounded-exhaustive enumeration of update patterns x sync "
              "configurations x wire encodings x partitions on the real "
              "Gluon substrate over real MPI processes, oracle = reduction "
              "of the gathered pre-sync values",
    level_text="every subset of writable proxies x reduction x location pair "
               "x bitset x enforced encoding is synchronised by the real "
               "code and every readable proxy is compared with the reduced "
               "value",
    level_note="inputs x configurations are enumerated, message arrival "
               "order is not (DESIGN.md 5, 9); level exploration",
    design_ref="DESIGN.md 5, 6.1, 7/C18, 9",
    parts=[dict(engine="py", harness="c18_gluon",
                script="harness/e4_driver.py", args=("--prop", "C18"))],
)


NOT_APPLICABLE = {}

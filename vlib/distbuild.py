"""CMake+Ninja build of the distributed Galois libraries (engine E4).

dist_build() configures /repo's CURRENT WORKING TREE out of source into
/verif/build/cmake-dist-<hash> with -DGALOIS_ENABLE_DIST=ON
-DCMAKE_BUILD_TYPE=Release (assertions off, as shipped) and builds only the
library targets the E4 harnesses link (galois_support galois_shmem
galois_dist_async galois_gluon; galois_cusp is header-only).  <hash> covers
every file under libgalois libdist libgluon libcusp libsupport cmake and the
top-level CMakeLists.txt, so an untouched tree rebuilds nothing and any change
there yields a fresh build directory.  /repo/_build is never read or written;
TMPDIR points into /verif/build/tmp for the duration of the build so nothing is
left under /tmp.

The compile flags for a harness TU are taken from the build tree's
compile_commands.json (entry of libgluon/src/GluonSubstrate.cpp), i.e. they are
exactly the flags the project itself uses for code that includes the Gluon /
CuSP headers.
"""
import hashlib
import json
import os
import shlex
import shutil
import subprocess
import sys
import time

from . import build

REPO = build.REPO
BUILD = build.BUILD
TMP = build.TMP

HASH_TREES = ["libgalois", "libdist", "libgluon", "libcusp", "libsupport",
              "cmake"]
HASH_FILES = ["CMakeLists.txt"]
TARGETS = ["galois_support", "galois_shmem", "galois_dist_async",
           "galois_gluon"]
CMAKE_ARGS = ["-DGALOIS_ENABLE_DIST=ON", "-DCMAKE_BUILD_TYPE=Release",
              "-DBUILD_TESTING=OFF"]

_cache = {}


def dist_tree_hash():
    if "h" in _cache:
        return _cache["h"]
    h = hashlib.sha256()
    h.update(" ".join(CMAKE_ARGS + TARGETS).encode())
    for d in HASH_TREES:
        dd = os.path.join(REPO, d)
        for root, dn, fn in sorted(os.walk(dd)):
            dn.sort()
            for f in sorted(fn):
                p = os.path.join(root, f)
                h.update(os.path.relpath(p, REPO).encode())
                h.update(b"\0")
                try:
                    with open(p, "rb") as fh:
                        h.update(fh.read())
                except OSError:
                    pass
                h.update(b"\0")
    for f in HASH_FILES:
        with open(os.path.join(REPO, f), "rb") as fh:
            h.update(f.encode())
            h.update(fh.read())
    _cache["h"] = h.hexdigest()[:20]
    return _cache["h"]


def _run(cmd, env, log):
    with open(log, "a") as lf:
        lf.write("$ " + " ".join(cmd) + "\n")
        lf.flush()
        r = subprocess.run(cmd, env=env, stdout=lf, stderr=subprocess.STDOUT)
    return r.returncode


def _fail(what, log):
    sys.stderr.write("DIST BUILD FAILED (%s); tail of %s:\n" % (what, log))
    try:
        sys.stderr.write("".join(open(log, errors="replace").readlines()[-60:]))
    except OSError:
        pass
    raise SystemExit(2)


def _parse_flags(bdir):
    cc = json.load(open(os.path.join(bdir, "compile_commands.json")))
    ent = None
    for e in cc:
        if e["file"].endswith("libgluon/src/GluonSubstrate.cpp"):
            ent = e
    if ent is None:
        raise SystemExit("distbuild: no compile command for GluonSubstrate.cpp")
    argv = shlex.split(ent["command"]) if "command" in ent else ent["arguments"]
    inc, flags = [], []
    i = 1
    while i < len(argv):
        a = argv[i]
        if a in ("-o", "-c", "-MF", "-MT"):
            i += 2
            continue
        if a == "-MD" or a == "-MMD":
            i += 1
            continue
        if a in ("-isystem", "-I"):
            inc.append(argv[i + 1])
            i += 2
            continue
        if a.startswith("-I"):
            inc.append(a[2:])
            i += 1
            continue
        if a.startswith("-isystem"):
            inc.append(a[len("-isystem"):])
            i += 1
            continue
        if a.endswith(".cpp") or a.endswith(".o"):
            i += 1
            continue
        if a in ("-Werror", "-Wall", "-Wextra"):
            i += 1
            continue
        flags.append(a)
        i += 1
    return argv[0], inc, flags


def _cache_var(bdir, name):
    for line in open(os.path.join(bdir, "CMakeCache.txt"), errors="replace"):
        if line.startswith(name + ":") or line.startswith(name + "="):
            return line.split("=", 1)[1].strip()
    return ""


def dist_build(verbose=True):
    """Returns dict(dir, include_dirs, libs, cxxflags, ldflags, cold, build_s,
    hash).  libs are absolute paths of static libraries in link order."""
    if "res" in _cache:
        return _cache["res"]
    t0 = time.time()
    hh = dist_tree_hash()
    bdir = os.path.join(BUILD, "cmake-dist-" + hh)
    stamp = os.path.join(bdir, "verif-dist-build.json")
    if os.path.exists(stamp):
        res = json.load(open(stamp))
        if all(os.path.exists(l) for l in res["libs"]):
            res["cold"] = False
            res["build_s"] = round(time.time() - t0, 2)
            _cache["res"] = res
            return res
    # ---- cold build (one at a time: C18 and C19 may start together) --------
    import fcntl
    os.makedirs(BUILD, exist_ok=True)
    lockf = open(os.path.join(BUILD, "cmake-dist.lock"), "w")
    fcntl.flock(lockf, fcntl.LOCK_EX)
    try:
        if os.path.exists(stamp):  # built by the other process meanwhile
            res = json.load(open(stamp))
            if all(os.path.exists(l) for l in res["libs"]):
                res["cold"] = False
                res["build_s"] = round(time.time() - t0, 2)
                _cache["res"] = res
                return res
        return _cold_build(hh, bdir, stamp, t0, verbose)
    finally:
        fcntl.flock(lockf, fcntl.LOCK_UN)
        lockf.close()


def _prune(keep):
    """Remove build trees of older /repo states (keep the two newest besides
    the current one)."""
    try:
        ds = [os.path.join(BUILD, d) for d in os.listdir(BUILD)
              if d.startswith("cmake-dist-") and
              os.path.isdir(os.path.join(BUILD, d)) and
              os.path.join(BUILD, d) != keep]
        ds.sort(key=lambda d: os.path.getmtime(d), reverse=True)
        for d in ds[2:]:
            shutil.rmtree(d, ignore_errors=True)
    except OSError:
        pass


def _cold_build(hh, bdir, stamp, t0, verbose):
    os.makedirs(TMP, exist_ok=True)
    tmpd = os.path.join(TMP, "distbuild-tmp-%d" % os.getpid())
    os.makedirs(tmpd, exist_ok=True)
    env = dict(os.environ, TMPDIR=tmpd, TMP=tmpd, TEMP=tmpd)
    # build in the final location (CMake caches absolute paths); a failed or
    # interrupted build has no stamp and is rebuilt from scratch next time
    if os.path.exists(bdir):
        shutil.rmtree(bdir)
    os.makedirs(bdir)
    log = os.path.join(bdir, "verif-dist-build.log")
    if verbose:
        print("# distbuild: cold CMake build of %s into %s" % (REPO, bdir),
              flush=True)
    try:
        rc = _run(["cmake", "-G", "Ninja", "-S", REPO, "-B", bdir] + CMAKE_ARGS,
                  env, log)
        if rc != 0:
            _fail("configure", log)
        t1 = time.time()
        jobs = os.environ.get("VERIF_BUILD_JOBS", "12")
        rc = _run(["cmake", "--build", bdir, "-j", jobs, "--target"] + TARGETS,
                  env, log)
        if rc != 0:
            _fail("build", log)
        t2 = time.time()
    finally:
        shutil.rmtree(tmpd, ignore_errors=True)
    cxx, inc, flags = _parse_flags(bdir)
    # cusp is header-only and not part of the gluon TU's include path
    for extra in ("libcusp/include",):
        p = os.path.join(REPO, extra)
        if p not in inc:
            inc.append(p)
    libs = [os.path.join(bdir, "libgluon", "libgalois_gluon.a"),
            os.path.join(bdir, "libdist", "libgalois_dist_async.a"),
            os.path.join(bdir, "libgalois", "libgalois_shmem.a"),
            os.path.join(bdir, "libsupport", "libgalois_support.a")]
    for l in libs:
        if not os.path.exists(l):
            _fail("missing " + l, log)
    ld = ["-lpthread", "-ldl"]
    numa = _cache_var(bdir, "NUMA_LIBRARY")
    if numa and "NOTFOUND" not in numa:
        ld.append(numa)
    ld.append("-lfmt")
    res = dict(dir=bdir, hash=hh, cxx=cxx, include_dirs=inc, cxxflags=flags,
               libs=libs, ldflags=ld, configure_s=round(t1 - t0, 1),
               compile_s=round(t2 - t1, 1), cold_build_s=round(t2 - t0, 1))
    with open(stamp + ".tmp", "w") as f:
        json.dump(res, f, indent=1)
    os.replace(stamp + ".tmp", stamp)
    res = dict(res, cold=True, build_s=round(time.time() - t0, 2))
    _cache["res"] = res
    _prune(bdir)
    if verbose:
        print("# distbuild: cold build done in %.1fs (configure %.1fs, "
              "compile %.1fs)" % (res["build_s"], res["configure_s"],
                                  res["compile_s"]), flush=True)
    return res


def harness_compile_cmd(res, src, out, extra_flags=()):
    """mpicxx command line that compiles+links one harness TU."""
    cmd = ["mpicxx"] + list(res["cxxflags"]) + ["-w"] + list(extra_flags)
    for d in res["include_dirs"]:
        cmd.append("-I" + d)
    cmd += [src, "-o", out] + list(res["libs"]) + list(res["ldflags"])
    return cmd


def _include_closure(src):
    """src plus the harness-directory headers it includes with quotes,
    transitively (other harnesses' headers do not invalidate the binary)."""
    import re
    d = os.path.dirname(src)
    seen, todo = [], [src]
    while todo:
        f = todo.pop()
        if f in seen or not os.path.exists(f):
            continue
        seen.append(f)
        for m in re.finditer(r'^\s*#\s*include\s+"([^"]+)"',
                             open(f, errors="replace").read(), re.M):
            todo.append(os.path.join(d, m.group(1)))
    return sorted(seen)


def build_dist_harness(name, extra_flags=(), verbose=True):
    """Compile /verif/harness/<name>.cpp against the dist libraries; binary is
    cached by content hash under /verif/build/bin."""
    res = dist_build(verbose)
    src = os.path.join(build.VERIF, "harness", name + ".cpp")
    h = hashlib.sha256()
    h.update(res["hash"].encode())
    h.update(" ".join(extra_flags).encode())
    for f in _include_closure(src):
        h.update(os.path.basename(f).encode())
        h.update(open(f, "rb").read())
    out = os.path.join(build.BIN, "%s-%s" % (name, h.hexdigest()[:24]))
    if os.path.exists(out):
        return out, res
    os.makedirs(build.BIN, exist_ok=True)
    os.makedirs(TMP, exist_ok=True)
    import tempfile
    tmpd = tempfile.mkdtemp(prefix="distbuild-cc-", dir=TMP)
    env = dict(os.environ, TMPDIR=tmpd)
    tmp = out + ".tmp%d.%s" % (os.getpid(), os.path.basename(tmpd)[-6:])
    t0 = time.time()
    try:
        r = subprocess.run(harness_compile_cmd(res, src, tmp, extra_flags),
                           env=env, stdout=subprocess.PIPE,
                           stderr=subprocess.STDOUT, text=True)
    finally:
        shutil.rmtree(tmpd, ignore_errors=True)
    if r.returncode != 0:
        sys.stderr.write("HARNESS COMPILE FAILED: %s\n%s\n" %
                         (src, r.stdout[-8000:]))
        raise SystemExit(2)
    os.replace(tmp, out)
    if verbose:
        print("# distbuild: compiled %s in %.1fs" % (name, time.time() - t0),
              flush=True)
    return out, res


if __name__ == "__main__":
    r = dist_build()
    print(json.dumps(r, indent=1))
